---- MODULE TenantStore ----
(* C22: tenant and pipeline metadata survive restarts exactly as acknowledged.
   Abstract state: which tenants exist (with their API key) and, per tenant, the pipelines with their current source.
   Operations are the management operations of the REST API; each is acknowledged after its store writes.  A crash may hit
   between any two store writes; recovery must yield the last acknowledged state, or that state with the single in-flight
   operation applied.  TLC enumerates operation histories with the abstract state after every step; the harness runs each
   history on a real TenantManager over a store that dies at the k-th write, for EVERY k, and recovers on the frozen contents. *)
EXTENDS Naturals, Sequences, FiniteSets, TLC, Json
CONSTANTS MaxOps
Tenants == {1, 2}
Pipes == {1, 2}
Srcs == {0, 1, 2, 3}        \* 0 plain, 1 uses .distinct(), 2 uses .limit(n), 3 sequence pattern  (rendered by the harness)
NoT == [exists |-> FALSE, pl |-> [p \in Pipes |-> [exists |-> FALSE, src |-> 0]]]
VARIABLES st, hist, states
Init == st = [t \in Tenants |-> NoT] /\ hist = <<>> /\ states = <<>>
Rec(op, s2) == hist' = Append(hist, op) /\ states' = Append(states, s2) /\ st' = s2
CreateT(t) == ~st[t].exists /\ Rec([op |-> "create", t |-> t, p |-> 0, src |-> 0], [st EXCEPT ![t].exists = TRUE])
DeleteT(t) == st[t].exists /\ Rec([op |-> "delete_tenant", t |-> t, p |-> 0, src |-> 0], [st EXCEPT ![t] = NoT])
Deploy(t, p, s) == st[t].exists /\ ~st[t].pl[p].exists /\ Rec([op |-> "deploy", t |-> t, p |-> p, src |-> s], [st EXCEPT ![t].pl[p] = [exists |-> TRUE, src |-> s]])
Remove(t, p) == st[t].exists /\ st[t].pl[p].exists /\ Rec([op |-> "remove", t |-> t, p |-> p, src |-> 0], [st EXCEPT ![t].pl[p] = [exists |-> FALSE, src |-> 0]])
Reload(t, p, s) == st[t].exists /\ st[t].pl[p].exists /\ st[t].pl[p].src # s /\ Rec([op |-> "reload", t |-> t, p |-> p, src |-> s], [st EXCEPT ![t].pl[p].src = s])
Next == /\ Len(hist) < MaxOps
        /\ \/ \E t \in Tenants : CreateT(t) \/ DeleteT(t)
           \/ \E t \in Tenants, p \in Pipes, s \in Srcs : Deploy(t, p, s) \/ Reload(t, p, s)
           \/ \E t \in Tenants, p \in Pipes : Remove(t, p)
Emit == (Len(hist) = MaxOps) => PrintT(<<"CASE", ToJson([hist |-> hist, states |-> states])>>)
====
