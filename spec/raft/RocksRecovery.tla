---- MODULE RocksRecovery ----
(* C36: a coordinator restarted on persistent storage has exactly the replicated state of the commands up to its recorded applied
   position, and its recorded vote, log and purge position are those persisted before the crash.
   The store (raft/persistent_store.rs) is modelled at the grain of its RocksDB writes:
     disk  = [log : index -> command, vote, purged, applied, snap : 0 | [upto, state]]     what survives a crash
     mem   = [applied, state]                                                               the in-memory state machine
   One action per storage call; a call is a sequence of disk writes (w1; w2; ...) and `Crash(k)` cuts the current call after k of them.
   The state machine is the abstract one of RaftSM (here: the multiset of applied command ids is enough - state = set of ids).
   Recovery (Reopen):  RecoverFrom = "log"       what open_with_shared_state does: replay log entries <= applied that are still on disk
                                   = "snapshot"  the property-satisfying design: start from the persisted snapshot/state, replay the rest
   Invariant Recovered (checked after every Reopen): mem.state = the commands 1..applied (exactly), vote/log/purged = disk.
   Histories obey openraft's use of the store: append contiguous; apply only appended entries in order; snapshot at the applied position;
   purge only up to the last snapshot; install a snapshot ahead of the log. *)
EXTENDS Naturals, Sequences, FiniteSets, TLC, Json
CONSTANTS MaxIdx, MaxOps, RecoverFrom
VARIABLES disk, mem, snapAt, hist, crashed
vars == <<disk, mem, snapAt, hist, crashed>>
NoSnap == [upto |-> 0, state |-> {}]
Init == /\ disk = [log |-> {}, vote |-> 0, purged |-> 0, applied |-> 0, snap |-> NoSnap]
        /\ mem = [applied |-> 0, state |-> {}] /\ snapAt = 0 /\ hist = <<>> /\ crashed = FALSE
Last == IF disk.log = {} THEN disk.purged ELSE CHOOSE x \in disk.log : \A y \in disk.log : y <= x
H(op, a, k) == hist' = Append(hist, [op |-> op, a |-> a, crash |-> k, disk |-> [log |-> [i \in 1..MaxIdx |-> i \in disk'.log], vote |-> disk'.vote, purged |-> disk'.purged, applied |-> disk'.applied],
                                    mem |-> [applied |-> mem'.applied, state |-> [i \in 1..MaxIdx |-> i \in mem'.state]]])
\* ---- storage calls; k = number of disk writes completed before the crash (the call has `n` writes; k = n means no crash)
Append1(k) == /\ Last < MaxIdx /\ k \in 0..1
              /\ disk' = IF k = 1 THEN [disk EXCEPT !.log = @ \cup {Last + 1}] ELSE disk
              /\ UNCHANGED <<mem, snapAt>> /\ crashed' = (k < 1) /\ H("append", Last + 1, k)
Vote(v, k) == /\ k \in 0..1 /\ disk' = IF k = 1 THEN [disk EXCEPT !.vote = v] ELSE disk
              /\ UNCHANGED <<mem, snapAt>> /\ crashed' = (k < 1) /\ H("vote", v, k)
\* apply_to_state_machine(entry i): memory first, then writes: last_applied ; last_membership
Apply(k) == LET i == mem.applied + 1 IN
            /\ i \in disk.log /\ k \in 0..2
            /\ mem' = [applied |-> i, state |-> mem.state \cup {i}]
            /\ disk' = IF k >= 1 THEN [disk EXCEPT !.applied = i] ELSE disk
            /\ UNCHANGED snapAt /\ crashed' = (k < 2) /\ H("apply", i, k)
\* build_snapshot: no disk write at all in the code (the snapshot is built on demand from memory)
Build == /\ mem.applied > snapAt /\ snapAt' = mem.applied
         /\ disk' = IF RecoverFrom = "snapshot" THEN [disk EXCEPT !.snap = [upto |-> mem.applied, state |-> mem.state]] ELSE disk
         /\ UNCHANGED mem /\ crashed' = FALSE /\ H("build", mem.applied, 1)
\* purge_logs_upto(i): writes: delete batch ; last_purged
Purge(k) == LET i == snapAt IN
            /\ i > disk.purged /\ i \in disk.log /\ k \in 0..2
            /\ disk' = [disk EXCEPT !.log = IF k >= 1 THEN {x \in @ : x > i} ELSE @, !.purged = IF k >= 2 THEN i ELSE @]
            /\ UNCHANGED <<mem, snapAt>> /\ crashed' = (k < 2) /\ H("purge", i, k)
\* install_snapshot(upto j ahead of the applied position): memory first, then: last_applied ; last_membership ; snapshot data ; snapshot meta
Install(j, k) == /\ j > mem.applied /\ j <= MaxIdx /\ k \in 0..4
                 /\ mem' = [applied |-> j, state |-> 1..j]
                 \* code order: last_applied (1), membership (2), snapshot data (3), snapshot meta (4); safe order: data, meta, applied, membership
                 /\ disk' = IF RecoverFrom = "log"
                            THEN [disk EXCEPT !.applied = IF k >= 1 THEN j ELSE @, !.snap = IF k >= 3 THEN [upto |-> j, state |-> 1..j] ELSE @]
                            ELSE [disk EXCEPT !.snap = IF k >= 2 THEN [upto |-> j, state |-> 1..j] ELSE @, !.applied = IF k >= 3 THEN j ELSE @]
                 /\ snapAt' = j /\ crashed' = (k < 4) /\ H("install", j, k)
\* delete_conflict_logs_since(i): one batch
Conflict(i, k) == /\ i \in disk.log /\ i > mem.applied /\ k \in 0..1
                  /\ disk' = IF k = 1 THEN [disk EXCEPT !.log = {x \in @ : x < i}] ELSE disk
                  /\ UNCHANGED <<mem, snapAt>> /\ crashed' = (k < 1) /\ H("conflict", i, k)
\* ---- crash + reopen
Replay(from, upto) == {x \in disk.log : x > from /\ x <= upto}
Reopen == /\ mem' = IF RecoverFrom = "log"
                    THEN [applied |-> disk.applied, state |-> Replay(0, disk.applied)]
                    ELSE LET ap == IF disk.snap.upto > disk.applied THEN disk.snap.upto ELSE disk.applied IN
                         [applied |-> ap, state |-> disk.snap.state \cup Replay(disk.snap.upto, ap)]
          /\ snapAt' = IF RecoverFrom = "snapshot" THEN disk.snap.upto ELSE 0
          /\ crashed' = FALSE /\ UNCHANGED disk /\ H("reopen", 0, 0)
Step == \/ \E k \in 0..4 : Append1(k) \/ Apply(k) \/ Purge(k) \/ (\E v \in 1..2 : Vote(v, k)) \/ (\E j \in 1..MaxIdx : Install(j, k)) \/ (\E i \in 1..MaxIdx : Conflict(i, k))
        \/ Build
Next == /\ Len(hist) < MaxOps
        /\ IF crashed THEN Reopen ELSE (Step \/ Reopen)
\* C36 (evaluated on states that follow a Reopen): the recovered state is exactly the commands up to the recorded applied position
JustReopened == hist # <<>> /\ hist[Len(hist)].op = "reopen"
Recovered == JustReopened => mem.state = 1..mem.applied
\* transition coverage: with the history hidden by the VIEW, TLC visits every (disk, memory) state once and prints one history per
\* transition leaving it
CovNext == Next /\ PrintT(<<"CASE", ToJson([hist |-> hist'])>>)
CovView == <<disk, mem, snapAt, crashed>>
Case == (Len(hist) = MaxOps) => PrintT(<<"CASE", ToJson([hist |-> hist])>>)
====
