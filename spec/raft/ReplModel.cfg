CONSTANTS Nodes = {1, 2, 3}
MaxTerm = 3
MaxCmds = 2
VoteCheck = TRUE
INIT Init
NEXT Next
INVARIANT Agreement
INVARIANT Durable
INVARIANT OneLeaderPerTerm
CHECK_DEADLOCK FALSE
