---- MODULE CoordSync ----
(* C38: in Raft mode every change a coordinator acknowledges or makes on its own is reflected in the replicated state, so that
   re-synchronising from the replicated state (Coordinator::sync_from_raft) never reverts it.
   L = the coordinator's local view, R = the replicated state machine (raft/state_machine.rs), both projected to
     workers : w -> [reg, status, has]   (has = the pipeline is in the worker's assigned list)
     grp     : [exists, on]              (one group with one pipeline, placed on worker `on`)
     conn    : 0..2                      (one connector, absent / version 1 / version 2)
   plus L.fresh[w] (heartbeat younger than the timeout).
   Every step is one coordinator operation followed by sync_from_raft, as the harness executes it; the operation's effect on R is the
   list of ClusterCommands the code replicates for it (api.rs handlers, the health loop of the CLI).  Faithful = TRUE transcribes the code:
     deploy        replicates GroupDeployed            but not the worker's new assigned list
     heartbeat     replicates nothing                  (so an unhealthy -> ready recovery is local only)
     sweep         replicates WorkerStatusChanged      but nothing of the failover that follows
   Faithful = FALSE is the design in which each of these also replicates what it changed.
   rev = the set of fields sync_from_raft changes back right after the operation; C38 says rev = {} always. *)
EXTENDS Naturals, Sequences, FiniteSets, TLC, Json
CONSTANTS Faithful, MaxLen
W == {"w1", "w2"}
Other(w) == IF w = "w1" THEN "w2" ELSE "w1"
NoW == [reg |-> FALSE, status |-> "none", has |-> FALSE]
VARIABLES L, R, fresh, hist
vars == <<L, R, fresh, hist>>
Empty == [workers |-> [w \in W |-> NoW], grp |-> [exists |-> FALSE, on |-> "none"], conn |-> 0]
Init == L = Empty /\ R = Empty /\ fresh = [w \in W |-> FALSE] /\ hist = <<>>
\* sync_from_raft on the projection
Sync(l, r) == [workers |-> [w \in W |->
                  IF ~r.workers[w].reg THEN NoW
                  ELSE IF ~l.workers[w].reg THEN r.workers[w]
                  ELSE [reg |-> TRUE, has |-> r.workers[w].has,
                        status |-> IF r.workers[w].status \in {"unhealthy", "draining"} THEN r.workers[w].status ELSE l.workers[w].status]],
               grp |-> r.grp, conn |-> r.conn]
SyncFresh(l, r, f) == [w \in W |-> IF r.workers[w].reg /\ (~l.workers[w].reg \/ r.workers[w].status = "ready") THEN TRUE ELSE f[w]]
Rev(l, r) == LET s == Sync(l, r) IN
   { <<w, "status">> : w \in {x \in W : s.workers[x].status # l.workers[x].status} } \cup
   { <<w, "assigned">> : w \in {x \in W : s.workers[x].has # l.workers[x].has} } \cup
   { <<w, "registered">> : w \in {x \in W : s.workers[x].reg # l.workers[x].reg} } \cup
   (IF s.grp # l.grp THEN {<<"g", "placement">>} ELSE {}) \cup (IF s.conn # l.conn THEN {<<"c", "connector">>} ELSE {})
\* one step: operation (l2, r2, f2 = state after the operation), then sync
Step(a, l2, r2, f2) == /\ hist' = Append(hist, [a |-> a, rev |-> Rev(l2, r2), post |-> Sync(l2, r2)])
                       /\ L' = Sync(l2, r2) /\ R' = r2 /\ fresh' = SyncFresh(l2, r2, f2)
Register(w) == /\ ~L.workers[w].reg
               /\ LET nw == [reg |-> TRUE, status |-> "ready", has |-> FALSE] IN
                  Step([op |-> "register", w |-> w], [L EXCEPT !.workers[w] = nw], [R EXCEPT !.workers[w] = nw], [fresh EXCEPT ![w] = TRUE])
Deregister(w) == /\ L.workers[w].reg /\ ~L.workers[w].has /\ ~(L.grp.exists /\ L.grp.on = w)
                 /\ Step([op |-> "deregister", w |-> w], [L EXCEPT !.workers[w] = NoW], [R EXCEPT !.workers[w] = NoW], fresh)
Heartbeat(w) == /\ L.workers[w].reg
                /\ LET rec == L.workers[w].status = "unhealthy"
                       l2 == [L EXCEPT !.workers[w].status = IF rec THEN "ready" ELSE @]
                       r2 == IF ~Faithful /\ rec /\ R.workers[w].reg THEN [R EXCEPT !.workers[w].status = "ready"] ELSE R
                   IN Step([op |-> "heartbeat", w |-> w], l2, r2, [fresh EXCEPT ![w] = TRUE])
\* time passes without a heartbeat of w; no re-synchronisation in between (a sync would refresh the heartbeat of every worker the
\* replicated state calls ready - which is why, in the CLI's loop order sync ; sweep, a sweep never marks anybody in Raft mode)
Age(w) == /\ L.workers[w].reg /\ fresh[w]
          /\ hist' = Append(hist, [a |-> [op |-> "age", w |-> w], rev |-> {}, post |-> L])
          /\ fresh' = [fresh EXCEPT ![w] = FALSE] /\ UNCHANGED <<L, R>>
Avail(l, w) == l.workers[w].reg /\ l.workers[w].status = "ready"
Deploy(w) == /\ ~L.grp.exists /\ Avail(L, w)
             /\ LET l2 == [L EXCEPT !.grp = [exists |-> TRUE, on |-> w], !.workers[w].has = TRUE]
                    r1 == [R EXCEPT !.grp = [exists |-> TRUE, on |-> w]]
                    r2 == IF ~Faithful /\ r1.workers[w].reg THEN [r1 EXCEPT !.workers[w].has = TRUE] ELSE r1
                IN Step([op |-> "deploy", w |-> w], l2, r2, fresh)
DeleteGroup == /\ L.grp.exists
               /\ LET w == L.grp.on
                      l2 == [L EXCEPT !.grp = [exists |-> FALSE, on |-> "none"], !.workers[w].has = IF L.workers[w].reg THEN FALSE ELSE @]
                      r1 == [R EXCEPT !.grp = [exists |-> FALSE, on |-> "none"]]
                      r2 == IF ~Faithful /\ r1.workers[w].reg THEN [r1 EXCEPT !.workers[w].has = FALSE] ELSE r1
                  IN Step([op |-> "delete_group"], l2, r2, fresh)
Conn(v) == /\ v # L.conn /\ Step([op |-> "connector", v |-> v], [L EXCEPT !.conn = v], [R EXCEPT !.conn = v], fresh)
\* health_sweep + WorkerStatusChanged replication + handle_worker_failure, as the health loop runs them after its sync
Sweep == LET marked == {w \in W : L.workers[w].reg /\ L.workers[w].status = "ready" /\ ~fresh[w]}
             l1 == [L EXCEPT !.workers = [w \in W |-> IF w \in marked THEN [L.workers[w] EXCEPT !.status = "unhealthy"] ELSE L.workers[w]]]
             r1 == [R EXCEPT !.workers = [w \in W |-> IF w \in marked /\ R.workers[w].reg THEN [R.workers[w] EXCEPT !.status = "unhealthy"] ELSE R.workers[w]]]
             src == l1.grp.on
             fo == l1.grp.exists /\ src \in marked /\ Avail(l1, Other(src))
             l2 == IF fo THEN [l1 EXCEPT !.grp.on = Other(src), !.workers[Other(src)].has = TRUE, !.workers[src].has = FALSE] ELSE l1
             r2 == IF fo /\ ~Faithful THEN [r1 EXCEPT !.grp.on = Other(src), !.workers[Other(src)].has = TRUE, !.workers[src].has = FALSE] ELSE r1
         IN /\ marked # {}
            /\ Step([op |-> "sweep", marked |-> marked, failover |-> fo], l2, r2, fresh)
Next == /\ Len(hist) < MaxLen
        /\ \/ \E w \in W : Register(w) \/ Deregister(w) \/ Heartbeat(w) \/ Age(w) \/ Deploy(w)
           \/ DeleteGroup \/ Sweep \/ \E v \in 0..2 : Conn(v)
\* C38
InSync == \A i \in 1..Len(hist) : hist[i].rev = {}
Case == (Len(hist) = MaxLen) => PrintT(<<"CASE", ToJson([hist |-> hist])>>)
StateView == <<L, R, fresh>>
====
