CONSTANTS MaxLen = 3
INIT Init
NEXT MCNext
INVARIANT Batching
INVARIANT SnapEquiv
CHECK_DEADLOCK FALSE
