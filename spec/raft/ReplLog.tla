---- MODULE ReplLog ----
(* C37 trace specification.  A trace is what hook H10 and the harness record from a real 3-node cluster under faults:
     {"ev":"reset"}                                             a new cluster
     {"ev":"apply","node":n,"inc":k,"index":i,"term":t,"digest":d}   store of node n (incarnation k) has applied the log up to i; d = digest of its state
     {"ev":"ack","cmd":c,"index":i}                             client_write of command c returned Ok (it was applied at log position i on the leader)
     {"ev":"noack","cmd":c}  {"ev":"fault",..}  {"ev":"heal"}  {"ev":"crash","node":n}  {"ev":"restart","node":n,"inc":k}
     {"ev":"final","node":n,"applied":i,"workers":[c..],"quiet":b}   after healing: node n has applied up to i and holds the commands `workers`
   The specification's state is the GLOBAL replicated history, which no node logs: glog[i] = (term, digest) of the state after log
   position i.  TLC infers it from the first node that reports position i and checks every later report against it:
     RAgree    every node that has applied the log up to position i has the same state there (and under the same term);
     RMono     a node never goes backwards within one incarnation;
     RDurable  a write acknowledged to a client is in the state of every node once the cluster is quiescent again, and an ack's position
               carries that command on every node that reports it (through RAgree). *)
EXTENDS Naturals, Sequences, FiniteSets, TLC, Json, IOUtils
Rec == ndJsonDeserialize(IOEnv.TRACE)
Nodes == 1..3
VARIABLES l, glog, pos, acked, finals, agree, mono, durable
vars == <<l, glog, pos, acked, finals, agree, mono, durable>>
EmptyF == [i \in {} |-> <<0, 0>>]
TInit == l = 1 /\ glog = EmptyF /\ pos = [n \in Nodes |-> 0] /\ acked = {} /\ finals = EmptyF /\ agree = TRUE /\ mono = TRUE /\ durable = TRUE
IsEv(n) == l <= Len(Rec) /\ Rec[l].ev = n /\ l' = l + 1
ToS(s) == { s[i] : i \in 1..Len(s) }
TReset == IsEv("reset") /\ glog' = EmptyF /\ pos' = [n \in Nodes |-> 0] /\ acked' = {} /\ finals' = EmptyF /\ UNCHANGED <<agree, mono, durable>>
TApply == /\ IsEv("apply")
          /\ LET r == Rec[l] v == <<r.term, r.digest>> IN
             /\ agree' = (agree /\ (r.index \in DOMAIN glog => glog[r.index] = v))
             /\ glog' = IF r.index \in DOMAIN glog THEN glog ELSE glog @@ (r.index :> v)
             /\ mono' = (mono /\ r.index > pos[r.node])
             /\ pos' = [pos EXCEPT ![r.node] = r.index]
          /\ UNCHANGED <<acked, finals, durable>>
TAck == IsEv("ack") /\ acked' = acked \cup {Rec[l].cmd} /\ UNCHANGED <<glog, pos, finals, agree, mono, durable>>
TCrash == IsEv("crash") /\ pos' = [pos EXCEPT ![Rec[l].node] = 0] /\ UNCHANGED <<glog, acked, finals, agree, mono, durable>>
TFinal == /\ IsEv("final")
          /\ LET r == Rec[l] w == ToS(r.workers) IN
             /\ durable' = (durable /\ (r.quiet => acked \subseteq w))
             /\ agree' = (agree /\ (r.applied \in DOMAIN finals => finals[r.applied] = w))
             /\ finals' = IF r.applied \in DOMAIN finals THEN finals ELSE finals @@ (r.applied :> w)
          /\ UNCHANGED <<glog, pos, acked, mono>>
TSkip == (IsEv("noack") \/ IsEv("fault") \/ IsEv("heal") \/ IsEv("restart")) /\ UNCHANGED <<glog, pos, acked, finals, agree, mono, durable>>
TNext == TReset \/ TApply \/ TAck \/ TCrash \/ TFinal \/ TSkip
RAgree == agree
RMono == mono
RDurable == durable
Accepted == TLCGet("stats").diameter - 1 = Len(Rec)
AcceptedMsg == IF Accepted THEN TRUE ELSE PrintT(<<"REJECTED at line", TLCGet("stats").diameter, Rec[TLCGet("stats").diameter]>>) /\ FALSE
====
