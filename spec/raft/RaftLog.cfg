CONSTANTS MaxOps = 5
MaxIdx = 4
PurgeForgetsLast = FALSE
INIT Init
NEXT Next
INVARIANT LastNeverLostByPurge
CHECK_DEADLOCK FALSE
