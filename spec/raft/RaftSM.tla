---- MODULE RaftSM ----
(* C35, first two sentences: the replicated coordinator state is a deterministic fold of the committed command log, independent of
   how the log is cut into apply batches, and a snapshot taken at any index followed by the rest of the log gives the same state.
   Apply transcribes raft/state_machine.rs apply_command over small id sets.  Snapshots are modelled as what the store writes:
   the state plus last_applied; installing replaces both.  TLC checks, for every log up to MaxLen:
     Batching:  folding batch by batch (any cut) = folding entry by entry,
     SnapEquiv: Install(SnapshotAt(i)) then the suffix = the whole log,
   and prints every (log, cuts, snapshot index, final state) as a case for the real MemStore / RocksStore. *)
EXTENDS Naturals, Sequences, FiniteSets, TLC, Json
CONSTANTS MaxLen
W == {"w1", "w2"}
G == {"g1", "g2"}
Cmds ==
  [k : {"RegisterWorker"}, id : W, v : {1, 2}] \cup [k : {"DeregisterWorker"}, id : W] \cup
  [k : {"WorkerStatusChanged"}, id : W, v : {"unhealthy", "ready"}] \cup
  [k : {"WorkerPipelinesUpdated"}, id : W, v : {0, 1, 2}] \cup        \* v = number of assigned pipelines p1..pv
  [k : {"GroupDeployed", "GroupUpdated"}, id : G, v : {1, 2}] \cup [k : {"GroupRemoved"}, id : G] \cup
  [k : {"MigrationStarted"}, id : {"m1", "m2", "noid"}] \cup [k : {"MigrationUpdated"}, id : {"m1", "m2"}, v : {"done", "failed"}] \cup
  [k : {"MigrationRemoved"}, id : {"m1", "m2"}] \cup
  [k : {"ConnectorCreated", "ConnectorUpdated"}, id : {"c1"}, v : {1, 2}] \cup [k : {"ConnectorRemoved"}, id : {"c1"}] \cup
  [k : {"ScalingPolicySet"}, v : {0, 1, 2}] \cup                        \* 0 = None
  [k : {"ModelRegistered"}, id : {"md"}, v : {1, 2}] \cup [k : {"ModelRemoved"}, id : {"md"}]
Absent == [p |-> "absent"]
S0 == [workers |-> [w \in W |-> Absent], groups |-> [g \in G |-> 0], migs |-> [m \in {"m1", "m2"} |-> "absent"],
       conns |-> 0, policy |-> 0, model |-> 0]
Apply(s, c) ==
  CASE c.k = "RegisterWorker" -> [s EXCEPT !.workers[c.id] = [p |-> "present", cap |-> c.v, status |-> "ready", assigned |-> 0]]
    [] c.k = "DeregisterWorker" -> [s EXCEPT !.workers[c.id] = Absent]
    [] c.k = "WorkerStatusChanged" -> IF s.workers[c.id].p = "present" THEN [s EXCEPT !.workers[c.id].status = c.v] ELSE s
    [] c.k = "WorkerPipelinesUpdated" -> IF s.workers[c.id].p = "present" THEN [s EXCEPT !.workers[c.id].assigned = c.v] ELSE s
    [] c.k \in {"GroupDeployed", "GroupUpdated"} -> [s EXCEPT !.groups[c.id] = c.v]
    [] c.k = "GroupRemoved" -> [s EXCEPT !.groups[c.id] = 0]
    [] c.k = "MigrationStarted" -> IF c.id = "noid" THEN s ELSE [s EXCEPT !.migs[c.id] = "running"]
    [] c.k = "MigrationUpdated" -> IF s.migs[c.id] # "absent" THEN [s EXCEPT !.migs[c.id] = c.v] ELSE s
    [] c.k = "MigrationRemoved" -> [s EXCEPT !.migs[c.id] = "absent"]
    [] c.k \in {"ConnectorCreated", "ConnectorUpdated"} -> [s EXCEPT !.conns = c.v]
    [] c.k = "ConnectorRemoved" -> [s EXCEPT !.conns = 0]
    [] c.k = "ScalingPolicySet" -> [s EXCEPT !.policy = c.v]
    [] c.k = "ModelRegistered" -> [s EXCEPT !.model = c.v]
    [] c.k = "ModelRemoved" -> [s EXCEPT !.model = 0]
RECURSIVE Fold(_, _)
Fold(s, l) == IF l = <<>> THEN s ELSE Fold(Apply(s, Head(l)), Tail(l))
VARIABLES log, cut, snap
vars == <<log, cut, snap>>
Init == log = <<>> /\ cut = 0 /\ snap = 0
Next == /\ Len(log) < MaxLen
        /\ \E c \in Cmds : log' = Append(log, c)
        /\ \E i \in 0..(Len(log) + 1), j \in 0..(Len(log) + 1) : cut' = i /\ snap' = j
\* model checking needs no cut / snapshot position in the state: the invariants quantify over every position
MCNext == Len(log) < MaxLen /\ (\E c \in Cmds : log' = Append(log, c)) /\ UNCHANGED <<cut, snap>>
Batching == \A i \in 0..Len(log) : Fold(Fold(S0, SubSeq(log, 1, i)), SubSeq(log, i + 1, Len(log))) = Fold(S0, log)
Snapshot(s, i) == [state |-> s, applied |-> i]
SnapEquiv == \A i \in 0..Len(log) : Fold(Snapshot(Fold(S0, SubSeq(log, 1, i)), i).state, SubSeq(log, i + 1, Len(log))) = Fold(S0, log)
Case == (Len(log) = MaxLen) => PrintT(<<"CASE", ToJson([log |-> log, cut |-> cut, snap |-> snap, final |-> Fold(S0, log)])>>)
====
