---- MODULE ReplModel ----
(* C37, design level: the write / replicate / apply protocol the coordinators run (leader-based log replication with terms, as the
   consensus library implements it), reduced to what the property talks about.  Messages are not modelled as a bag: a replication
   step copies one entry from the leader to a follower (loss and delay = the step not being taken; a partition = a node taking no
   steps), a crashed node keeps its log and term (persistent storage) and loses nothing else that matters here.
     Agreement  two nodes that have applied the log up to position i applied the same entries up to i;
     Durable    a command acknowledged to a client is in the log of every later leader (hence never lost from the replicated state). *)
EXTENDS Naturals, Sequences, FiniteSets, TLC
CONSTANTS Nodes, MaxTerm, MaxCmds, VoteCheck    \* VoteCheck = FALSE: voters ignore how up to date the candidate is (must break Durable)
VARIABLES log, term, role, applied, acked, ncmd
vars == <<log, term, role, applied, acked, ncmd>>
Quorums == {Q \in SUBSET Nodes : 2 * Cardinality(Q) > Cardinality(Nodes)}
LastTerm(l) == IF l = <<>> THEN 0 ELSE l[Len(l)].t
UpToDate(a, b) == LastTerm(a) > LastTerm(b) \/ (LastTerm(a) = LastTerm(b) /\ Len(a) >= Len(b))
Init == /\ log = [n \in Nodes |-> <<>>] /\ term = [n \in Nodes |-> 0] /\ role = [n \in Nodes |-> "follower"]
        /\ applied = [n \in Nodes |-> 0] /\ acked = {} /\ ncmd = 0
\* n wins an election with the votes of quorum Q (every voter's log is no more up to date and its term is lower)
Elect(n, Q) == /\ n \in Q /\ term[n] < MaxTerm
               /\ \A m \in Q : (VoteCheck => UpToDate(log[n], log[m])) /\ term[m] <= term[n] + 1 /\ (m # n => term[m] <= term[n])
               /\ LET t == term[n] + 1 IN
                  /\ term' = [m \in Nodes |-> IF m \in Q THEN t ELSE term[m]]
                  /\ role' = [m \in Nodes |-> IF m = n THEN "leader" ELSE IF m \in Q THEN "follower" ELSE role[m]]
               /\ UNCHANGED <<log, applied, acked, ncmd>>
Write(n) == /\ role[n] = "leader" /\ ncmd < MaxCmds
            /\ ncmd' = ncmd + 1 /\ log' = [log EXCEPT ![n] = Append(@, [t |-> term[n], c |-> ncmd + 1])]
            /\ UNCHANGED <<term, role, applied, acked>>
\* AppendEntries from leader n to m for position i (consistency check on the previous entry; conflicting suffix removed)
Replicate(n, m) == /\ role[n] = "leader" /\ m # n /\ term[m] <= term[n]
                   /\ \E i \in 1..Len(log[n]) :
                        /\ i - 1 <= Len(log[m]) /\ (IF i > 1 THEN log[m][i - 1] = log[n][i - 1] ELSE TRUE)
                        /\ (IF Len(log[m]) < i THEN TRUE ELSE log[m][i] # log[n][i])
                        /\ log' = [log EXCEPT ![m] = Append(SubSeq(@, 1, i - 1), log[n][i])]
                   /\ term' = [term EXCEPT ![m] = term[n]] /\ role' = [role EXCEPT ![m] = "follower"]
                   /\ applied' = [applied EXCEPT ![m] = IF @ > Len(log'[m]) THEN Len(log'[m]) ELSE @]   \* never happens if Agreement holds
                   /\ UNCHANGED <<acked, ncmd>>
Committed(n, i) == /\ i \in 1..Len(log[n]) /\ log[n][i].t = term[n]
                   /\ \E Q \in Quorums : \A m \in Q : Len(log[m]) >= i /\ log[m][i] = log[n][i] /\ term[m] <= term[n]
\* the leader applies a committed position and acknowledges the client
LeaderApply(n) == /\ role[n] = "leader"
                  /\ \E i \in (applied[n] + 1)..Len(log[n]) : Committed(n, i)
                        /\ applied' = [applied EXCEPT ![n] = i]
                        /\ acked' = acked \cup {log[n][j].c : j \in 1..i}
                  /\ UNCHANGED <<log, term, role, ncmd>>
\* a follower learns the commit position from its leader and applies
FollowerApply(n, m) == /\ role[n] = "leader" /\ m # n /\ term[m] = term[n]
                       /\ \E i \in (applied[m] + 1)..applied[n] : i <= Len(log[m]) /\ SubSeq(log[m], 1, i) = SubSeq(log[n], 1, i)
                             /\ applied' = [applied EXCEPT ![m] = i]
                       /\ UNCHANGED <<log, term, role, acked, ncmd>>
Crash(n) == /\ role' = [role EXCEPT ![n] = "follower"] /\ role[n] = "leader" /\ UNCHANGED <<log, term, applied, acked, ncmd>>
Next == \/ \E n \in Nodes, Q \in Quorums : Elect(n, Q)
        \/ \E n \in Nodes : Write(n) \/ LeaderApply(n) \/ Crash(n)
        \/ \E n, m \in Nodes : Replicate(n, m) \/ FollowerApply(n, m)
Min(a, b) == IF a < b THEN a ELSE b
Agreement == \A n, m \in Nodes : LET k == Min(applied[n], applied[m]) IN SubSeq(log[n], 1, k) = SubSeq(log[m], 1, k)
Durable == \A n \in Nodes : role[n] = "leader" /\ (\A m \in Nodes : term[m] <= term[n]) => acked \subseteq {log[n][j].c : j \in 1..Len(log[n])}
OneLeaderPerTerm == \A n, m \in Nodes : role[n] = "leader" /\ role[m] = "leader" /\ term[n] = term[m] => n = m
====
