---- MODULE RaftLog ----
(* C35, third sentence: the log stores meet the storage contract the consensus library relies on.
   Abstract store: log (index -> term), last_purged, vote.  Actions are the RaftStorage calls openraft makes, with its preconditions:
   appends are contiguous after the last log id, conflict deletion removes a suffix, purge removes a prefix of applied entries.
   Contract (what openraft reads back through get_log_state / try_get_log_entries / read_vote):
     LastLogId = the id of the last entry, or the purge point when every entry has been purged, or none;
     entries in a range come back in index order, exactly the stored ones;  the vote is the last saved one.
   Faithful switch (PurgeForgetsLast = TRUE) models stores that report no last log id once the log is empty.
   TLC enumerates every operation history up to MaxOps and prints it with the expected observations after every step. *)
EXTENDS Naturals, Sequences, FiniteSets, TLC, Json
CONSTANTS MaxOps, MaxIdx, PurgeForgetsLast
VARIABLES log, purged, vote, hist, term
None == [t |-> 0, i |-> 0]
Init == log = [i \in {} |-> 0] /\ purged = None /\ vote = 0 /\ hist = <<>> /\ term = 1
Idx == DOMAIN log
Max(S) == CHOOSE x \in S : \A y \in S : y <= x
LastIdx == IF Idx = {} THEN purged.i ELSE Max(Idx)
LastLogId == IF Idx # {} THEN [t |-> log[Max(Idx)], i |-> Max(Idx)]
             ELSE IF PurgeForgetsLast THEN None ELSE purged
Obs == [last |-> LastLogId, purged |-> purged, vote |-> vote, entries |-> [i \in 1..MaxIdx |-> IF i \in Idx THEN log[i] ELSE 0]]
Rec(op, a, b) == hist' = Append(hist, [op |-> op, a |-> a, b |-> b, obs |-> Obs'])
Append1(n) == /\ LastIdx + n <= MaxIdx
              /\ log' = [i \in Idx \cup ((LastIdx + 1)..(LastIdx + n)) |-> IF i \in Idx THEN log[i] ELSE term]
              /\ UNCHANGED <<purged, vote, term>> /\ Rec("append", LastIdx + 1, n)
NewTerm == term < 3 /\ term' = term + 1 /\ UNCHANGED <<log, purged, vote>> /\ Rec("term", term + 1, 0)
DeleteConflict(i) == /\ i \in Idx
                     /\ log' = [j \in {x \in Idx : x < i} |-> log[j]]
                     /\ UNCHANGED <<purged, vote, term>> /\ Rec("delete_conflict", i, log[i])
Purge(i) == /\ i \in Idx
            /\ purged' = [t |-> log[i], i |-> i]
            /\ log' = [j \in {x \in Idx : x > i} |-> log[j]]
            /\ UNCHANGED <<vote, term>> /\ Rec("purge", i, log[i])
SaveVote(v) == vote' = v /\ UNCHANGED <<log, purged, term>> /\ Rec("vote", v, 0)
Next == /\ Len(hist) < MaxOps
        /\ \/ \E n \in 1..2 : Append1(n)
           \/ NewTerm
           \/ \E i \in 1..MaxIdx : DeleteConflict(i) \/ Purge(i)
           \/ \E v \in 1..2 : SaveVote(v)
\* contract at design level: the last log id never moves backwards except by conflict deletion, and is never lost by a purge
LastNeverLostByPurge == \A n \in 1..Len(hist) : hist[n].op = "purge" => hist[n].obs.last.i >= hist[n].a
Case == (Len(hist) = MaxOps) => PrintT(<<"CASE", ToJson([hist |-> hist])>>)
====
