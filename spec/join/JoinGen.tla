---- MODULE JoinGen ----
EXTENDS Join, Json
Exp == [n \in 1..Len(arr) |-> [v |-> Verdict(arr, n), inorder |-> InOrderUpTo(arr, n),
          pick |-> IF Verdict(arr, n) = "mustnot" THEN <<>> ELSE [s \in Srcs |-> Pick(arr, n, s)]]]
Emit == (Len(arr) = MaxLen) => PrintT(<<"CASE", ToJson([arr |-> arr, exp |-> Exp, w |-> W])>>)
====
