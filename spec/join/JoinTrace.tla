---- MODULE JoinTrace ----
(* Trace validation of the real JoinBuffer / engine join: {"ev":"reset","w":W} then
   {"ev":"arr","src":s,"key":k,"ts":t,"out":BOOLEAN,"pick":{src: id}}.  The reference is evaluated on the recorded arrivals. *)
EXTENDS Join, Json, IOUtils, TLCExt
Rec == ndJsonDeserialize(IOEnv.TRACE)
VARIABLES l, ok, miss
tvars == <<vars, l, ok, miss>>
IsEv(n) == l <= Len(Rec) /\ Rec[l].ev = n /\ l' = l + 1
TInit == arr = <<>> /\ l = 1 /\ ok = TRUE /\ miss = TRUE
TReset == IsEv("reset") /\ arr' = <<>> /\ ok' = TRUE /\ miss' = TRUE
TArr == /\ IsEv("arr")
        /\ LET r == Rec[l]
               a2 == Append(arr, [src |-> r.src, key |-> r.key, ts |-> r.ts])
               n == Len(a2)
               v == Verdict(a2, n)
           IN /\ arr' = a2
              \* spurious outputs and wrong picks are never allowed; a missing output on an in-order prefix neither
              /\ ok' = (ok /\ (v = "mustnot" => ~r.out)
                           /\ ((r.out /\ v = "must") => \A s \in Srcs : r.pick[s] = Pick(a2, n, s))
                           /\ ((v = "must" /\ InOrderUpTo(a2, n)) => r.out))
              \* a missing output after out-of-order arrivals (recorded finding C15-gc-out-of-order)
              /\ miss' = (miss /\ (v = "must" => r.out))
TNext == TReset \/ TArr
RJoinOk == ok
RNoMiss == miss
Accepted == TLCGet("stats").diameter - 1 = Len(Rec)
AcceptedMsg == IF Accepted THEN TRUE
               ELSE PrintT(<<"REJECTED at line", TLCGet("stats").diameter, Rec[TLCGet("stats").diameter]>>) /\ FALSE
====
