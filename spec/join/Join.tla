------------------------------- MODULE Join -------------------------------
(* JoinBuffer (crates/varpulis-runtime/src/join.rs): arrivals (src, key, ts); a joined output is produced for an arrival
   exactly when every joined source has a buffered entry with the same key within the join window of the arriving
   event; its fields come from the most recently ARRIVED such entry of each source.
   The reference is three-valued: "must", "mustnot", "either" (the statement is silent about buffered entries whose
   timestamp is LATER than the arriving event's).  Time unit: 50 ms, so that the code's GC throttle (a tenth of the
   window) spans several units and dense traffic around the window boundary is reachable. *)
EXTENDS Integers, Sequences, FiniteSets, TLC, SequencesExt
CONSTANTS Srcs, Keys, W, MaxLen, Steps, Back   \* Steps: allowed timestamp increments (e.g. dense {0,1,2,3} or around the window boundary)

VARIABLES arr   \* seq of [src, key, ts]   (event id = index)
vars == <<arr>>
Init == arr = <<>>
LastTs == IF arr = <<>> THEN 0 ELSE arr[Len(arr)].ts
Lo == IF LastTs > Back THEN LastTs - Back ELSE 0
Next == /\ Len(arr) < MaxLen
        /\ \E s \in Srcs, k \in Keys, t \in { LastTs + d : d \in Steps } \cup (IF Back > 0 THEN Lo..LastTs ELSE {}) :
              arr' = Append(arr, [src |-> s, key |-> k, ts |-> t])
Spec == Init /\ [][Next]_vars

Cands(a, n, s, strict) ==   \* arrivals up to n of source s with the same key within the window of arrival n
  { i \in 1..n : /\ a[i].src = s /\ a[i].key = a[n].key
                 /\ a[i].ts >= a[n].ts - W
                 /\ (strict => a[i].ts <= a[n].ts) }
Verdict(a, n) ==
  IF \A s \in Srcs : Cands(a, n, s, TRUE) # {} THEN "must"
  ELSE IF \E s \in Srcs : Cands(a, n, s, FALSE) = {} THEN "mustnot"
  ELSE "either"
Pick(a, n, s) == LET c == Cands(a, n, s, FALSE) IN CHOOSE i \in c : \A j \in c : j <= i
InOrderUpTo(a, n) == \A i \in 1..(n-1) : a[i].ts <= a[i+1].ts
\* sanity of the reference: on in-order streams nothing is "either"
RefTotal == \A n \in 1..Len(arr) : InOrderUpTo(arr, n) => Verdict(arr, n) # "either"
=============================================================================
