CONSTANTS MaxLen = 3
Alphabet <- MCAlphabet
Templates <- MCTemplates
INIT Init
NEXT Next
INVARIANT ClosedForm
INVARIANT Case
CHECK_DEADLOCK FALSE
