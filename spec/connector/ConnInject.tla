---- MODULE ConnInject ----
(* C39: the declaration injected for a cluster connector parses and declares exactly the stored parameter values; the rest of the
   pipeline keeps its meaning.
   The spec models the two halves of the round trip at the level of characters:
     Emit(v)  - ClusterConnector::to_vpl_declaration's rendering of one parameter value:  plain canonical integers bare, else quoted;
     Lex(t)   - the grammar's config_value: integer = digit+, string = quote (non-quote-non-backslash | backslash any)* quote, raw slice.
   Ideal statement:  Lex(Emit(v)) = v for every value v.  TLC enumerates every value over Alphabet up to MaxLen and states, per value,
   whether the character-level model round-trips (class "exact") or not (class "unrepresentable": an unescaped quote or an odd number of
   trailing backslashes - the grammar has no way to write those, a recorded finding).  The harness runs the real to_vpl_declaration,
   inject_connectors, parser and engine loader on every value inside every pipeline template. *)
EXTENDS Naturals, Sequences, TLC, Json
CONSTANTS Alphabet, MaxLen, Templates
Digits == {"0", "1", "7"}
VARIABLES v, tmpl
IsDigits(s) == Len(s) > 0 /\ \A i \in 1..Len(s) : s[i] \in Digits
CanonInt(s) == IsDigits(s) /\ (Len(s) = 1 \/ s[1] # "0")          \* MaxLen digits always fit an i64
Quote == "\""
Bs == "\\"
Emit(s) == IF CanonInt(s) THEN s ELSE <<Quote>> \o s \o <<Quote>>
\* scanning a quoted token: position after the opening quote; returns the index of the closing quote or 0
RECURSIVE Close(_, _)
Close(t, i) == IF i > Len(t) THEN 0
               ELSE IF t[i] = Quote THEN i
               ELSE IF t[i] = Bs THEN Close(t, i + 2)
               ELSE Close(t, i + 1)
\* Lex returns <<ok, value>>; ok is FALSE if the token is not exactly one config_value
Lex(t) == IF IsDigits(t) THEN <<TRUE, t>>
          ELSE IF Len(t) >= 2 /\ t[1] = Quote
               THEN LET c == Close(t, 2) IN IF c = Len(t) THEN <<TRUE, SubSeq(t, 2, c - 1)>> ELSE <<FALSE, <<>>>>
               ELSE <<FALSE, <<>>>>
RoundTrips(s) == Lex(Emit(s)) = <<TRUE, s>>
\* closed form of the failing class, proved equal to ~RoundTrips by TLC on every enumerated value
RECURSIVE Scan(_, _)
Scan(s, i) == IF i > Len(s) THEN TRUE
              ELSE IF s[i] = Quote THEN FALSE
              ELSE IF s[i] = Bs THEN (i + 1 <= Len(s) /\ Scan(s, i + 2))
              ELSE Scan(s, i + 1)
Representable(s) == CanonInt(s) \/ Scan(s, 1)
Init == v = <<>> /\ tmpl \in Templates
Next == Len(v) < MaxLen /\ \E c \in Alphabet : v' = Append(v, c) /\ UNCHANGED tmpl
ClosedForm == RoundTrips(v) <=> Representable(v)
Case == PrintT(<<"CASE", ToJson([value |-> v, tmpl |-> tmpl, cls |-> IF RoundTrips(v) THEN "exact" ELSE "unrepresentable",
                                   bare |-> CanonInt(v)])>>)
MCAlphabet == {"0", "1", "7", ".", "e", "-", "+", "i", "n", "f", "a", "N", Quote, Bs, " ", "_"}
MCTemplates == {"from", "to", "both", "declared", "unknown", "comment", "rich", "append"}
====
