---- MODULE CkptCases ----
(* C19 input space: a program class (with parameters), an event/watermark stream, every cut position.
   The harness runs each stream uninterrupted and once per cut (checkpoint -> JSON -> fresh engine -> restore -> continue)
   on the real engine and compares the remaining outputs.  For the count-based windows CkptEquiv.tla decides the question
   at the design level (two copies of the operator state side by side). *)
EXTENDS Naturals, Sequences, FiniteSets, TLC, Json
CONSTANTS MaxLen, Classes
Params == { [d |-> d, s |-> s] : d \in 1..3, s \in 1..3 }
TypesOf(c) == IF c \in {"seq2", "part_seq", "join"} THEN {"A", "B"}
              ELSE IF c \in {"seq3ref", "kleene", "kleene_self", "kleene_long"} THEN {"A", "B", "C"}
              ELSE IF c = "neg" THEN {"A", "B", "N"}
              ELSE {"A"}
Ev(c) == [op : {"ev"}, type : TypesOf(c), k : 1..2, x : 0..2, dt : 0..2]
Wm == [op : {"wm"}, type : {"A"}, k : {0}, x : {0}, dt : 0..3]
VARIABLES cls, par, stream
Init == cls \in Classes /\ par \in Params /\ stream = <<>>
\* two disjuncts so that the simulator chooses watermark advances as often as events
Next == /\ Len(stream) < MaxLen
        /\ \/ \E e \in Ev(cls) : stream' = Append(stream, e)
           \/ (cls = "wm_tumbling" /\ \E e \in Wm : stream' = Append(stream, e))
        /\ UNCHANGED <<cls, par>>
Emit == (Len(stream) = MaxLen) => PrintT(<<"CASE", ToJson([cls |-> cls, par |-> par, stream |-> stream])>>)
====
