CONSTANTS MaxKeep = 3 MaxN = 4
INIT Init
NEXT Next
INVARIANT Emit
CHECK_DEADLOCK FALSE
