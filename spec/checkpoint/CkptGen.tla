---- MODULE CkptGen ----
(* Crash schedules for the checkpoint store: `n` checkpoints complete, then checkpoint n+1 crashes in phase `ph`
   (or no crash), optionally the newest stored file is corrupted, then the process restarts and takes one more checkpoint.
   Phases follow the file-system steps of FileStore::put and of pruning:
     "none" no crash | "before" nothing of save n+1 happened | "tmp_partial" | "tmp_full" | "renamed" (before any prune) |
     "prune_j" j files of the prune deleted | "acked" crash right after checkpoint() returned. *)
EXTENDS Naturals, Sequences, FiniteSets, TLC, Json
CONSTANTS MaxKeep, MaxN
Phases == {"none", "before", "tmp_partial", "tmp_full", "renamed", "prune1", "prune2", "acked"}
VARIABLES keep, n, ph, corrupt
Init == keep \in 1..MaxKeep /\ n \in 0..MaxN /\ ph \in Phases /\ corrupt \in BOOLEAN
Next == UNCHANGED <<keep, n, ph, corrupt>>
\* reference outcome: ids completely written before the crash
Completed == IF ph \in {"renamed", "prune1", "prune2", "acked"} THEN n + 1 ELSE n
Emit == PrintT(<<"CASE", ToJson([keep |-> keep, n |-> n, ph |-> ph, corrupt |-> corrupt, completed |-> Completed])>>)
====
