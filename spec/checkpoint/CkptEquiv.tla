----------------------------- MODULE CkptEquiv -----------------------------
(* Checkpoint/restore invisibility (C19) for the count-based windows.  Two copies of the operator state run
   side by side on the same arrivals: `live` is checkpointed and restored once at a nondeterministic cut,
   `ref` is never interrupted.  Property: identical emissions.  `Faithful` selects what window.rs persists. *)
EXTENDS Integers, Sequences, FiniteSets, TLC
CONSTANTS Kind, D, S, MaxLen, Faithful
(* Kind in {"count", "slidingcount"} *)
VARIABLES n, live, ref, outLive, outRef, cutDone
vars == <<n, live, ref, outLive, outRef, cutDone>>
St0 == [buf |-> <<>>, since |-> 0]
Init == n = 0 /\ live = St0 /\ ref = St0 /\ outLive = <<>> /\ outRef = <<>> /\ cutDone = FALSE

\* one arrival (event id) through the operator: returns [st, emit]  (emit = <<>> or <<window>>)
Step(st, id) ==
  IF Kind = "count" THEN
      IF Len(st.buf) + 1 >= D THEN [st |-> [st EXCEPT !.buf = <<>>], emit |-> <<Append(st.buf, id)>>]
      ELSE [st |-> [st EXCEPT !.buf = Append(@, id)], emit |-> <<>>]
  ELSE LET b1 == Append(st.buf, id)
           b2 == IF Len(b1) > D THEN SubSeq(b1, Len(b1) - D + 1, Len(b1)) ELSE b1
           e  == Len(b2) >= D /\ st.since + 1 >= S
       IN [st |-> [buf |-> b2, since |-> IF e THEN 0 ELSE st.since + 1], emit |-> IF e THEN <<b2>> ELSE <<>>]

\* what survives checkpoint -> serialise -> restore
Restore(st) == IF Faithful /\ Kind = "slidingcount" THEN [st EXCEPT !.since = 0]   \* restore() sets events_since_emit = 0
               ELSE st

Arrive == /\ n < MaxLen /\ n' = n + 1
          /\ LET a == Step(live, n + 1)  b == Step(ref, n + 1) IN
             /\ live' = a.st /\ ref' = b.st
             /\ outLive' = outLive \o a.emit /\ outRef' = outRef \o b.emit
          /\ UNCHANGED cutDone
Cut == /\ ~cutDone /\ cutDone' = TRUE /\ live' = Restore(live)
       /\ UNCHANGED <<n, ref, outLive, outRef>>
Next == Arrive \/ Cut
Invisible == outLive = outRef
=============================================================================
