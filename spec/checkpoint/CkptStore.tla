----------------------------- MODULE CkptStore -----------------------------
(* FileStore + CheckpointManager: save = mkdir; write tmp (may be partial); rename; prune = delete oldest
   until <= Keep; process crash between any two file-system steps; corruption of the newest file.
   Fallback = TRUE models the repaired load_latest (skip unreadable, next id from highest listed). *)
EXTENDS Naturals, Sequences, FiniteSets, TLC, FiniteSetsExt
CONSTANTS Keep, MaxSaves, Fallback

VARIABLES files,     \* id |-> "ok" | "corrupt"      (final files checkpoint/<id>)
          tmp,       \* set of ids having a tmp file: id |-> "partial" | "full"
          pc,        \* "idle" | "wrote_partial" | "wrote_tmp" | "renamed" | "pruning" | "down"
          cur,       \* id being saved
          nextId,
          acked,     \* ids for which checkpoint() returned Ok
          everUsed,  \* all ids ever handed out
          saves,
          recovered  \* result of last recover(): [ok, id]   id = 0 means None
vars == <<files, tmp, pc, cur, nextId, acked, everUsed, saves, recovered>>

Ids == 1..(MaxSaves + 2)
Init == /\ files = [i \in {} |-> "ok"] /\ tmp = [i \in {} |-> "full"] /\ pc = "idle" /\ cur = 0
        /\ nextId = 1 /\ acked = {} /\ everUsed = {} /\ saves = 0 /\ recovered = [ok |-> TRUE, id |-> 0]

Dom(f) == DOMAIN f
Put(f, k, v) == [x \in Dom(f) \cup {k} |-> IF x = k THEN v ELSE f[x]]
Del(f, k) == [x \in Dom(f) \ {k} |-> f[x]]

Begin == /\ pc = "idle" /\ saves < MaxSaves
         /\ cur' = nextId /\ saves' = saves + 1
         /\ tmp' = Put(tmp, nextId, "partial") /\ pc' = "wrote_partial"
         /\ UNCHANGED <<files, nextId, acked, everUsed, recovered>>
FinishWrite == /\ pc = "wrote_partial" /\ tmp' = Put(tmp, cur, "full") /\ pc' = "wrote_tmp"
               /\ UNCHANGED <<files, cur, nextId, acked, everUsed, saves, recovered>>
Rename == /\ pc = "wrote_tmp" /\ files' = Put(files, cur, "ok") /\ tmp' = Del(tmp, cur) /\ pc' = "renamed"
          /\ everUsed' = everUsed \cup {cur}      \* ids of checkpoints that were ever completely stored
          /\ UNCHANGED <<cur, nextId, acked, saves, recovered>>
\* prune: delete oldest while more than Keep remain; then ack
PruneStep == /\ pc \in {"renamed", "pruning"}
             /\ IF Cardinality(Dom(files)) > Keep
                  THEN /\ files' = Del(files, Min(Dom(files))) /\ pc' = "pruning"
                       /\ UNCHANGED <<tmp, cur, nextId, acked, everUsed, saves, recovered>>
                  ELSE /\ pc' = "idle" /\ acked' = acked \cup {cur} /\ nextId' = nextId + 1
                       /\ UNCHANGED <<files, tmp, cur, everUsed, saves, recovered>>
Crash == /\ pc # "down" /\ pc' = "down"
         /\ UNCHANGED <<files, tmp, cur, nextId, acked, everUsed, saves, recovered>>
Corrupt == /\ pc = "down" /\ Dom(files) # {} /\ files[Max(Dom(files))] = "ok"
           /\ files' = Put(files, Max(Dom(files)), "corrupt")
           /\ UNCHANGED <<tmp, pc, cur, nextId, acked, everUsed, saves, recovered>>

Readable == { i \in Dom(files) : files[i] = "ok" }
\* CheckpointManager::new + recover()
Restart ==
  /\ pc = "down"
  /\ LET newest == IF Dom(files) = {} THEN 0 ELSE Max(Dom(files))
         loadOk == newest = 0 \/ files[newest] = "ok"
     IN IF Fallback
          THEN /\ recovered' = [ok |-> TRUE, id |-> IF Readable = {} THEN 0 ELSE Max(Readable)]
               /\ nextId' = newest + 1 /\ pc' = "idle"
          ELSE IF loadOk
                 THEN /\ recovered' = [ok |-> TRUE, id |-> newest] /\ nextId' = newest + 1 /\ pc' = "idle"
                 ELSE /\ recovered' = [ok |-> FALSE, id |-> 0] /\ nextId' = nextId /\ pc' = "down"   \* new() fails
  /\ UNCHANGED <<files, tmp, cur, acked, everUsed, saves>>

Next == Begin \/ FinishWrite \/ Rename \/ PruneStep \/ Crash \/ Corrupt \/ Restart

\* ---- C21 ----
\* after a successful restart: newest readable complete checkpoint, never a partial (tmp files are never listed)
RecoverNewestComplete ==
  (pc = "idle" /\ recovered.ok /\ recovered.id # 0) => (recovered.id \in Dom(files) => files[recovered.id] = "ok")
RecoverySucceedsWithOlder ==
  \* whenever the store holds a readable checkpoint, a restart must not fail
  ~(pc = "down" /\ ~recovered.ok /\ Readable # {})
AtMostMax == (pc = "idle" /\ cur \in acked) => Cardinality(Dom(files)) <= Keep   \* after every completed checkpoint()
IdsIncrease == (pc = "idle") => \A i \in everUsed : nextId > i   \* never re-issue the id of a stored checkpoint
AckedSurvive == \* an acknowledged checkpoint is either still stored or was pruned in favour of newer ones
  \A i \in acked : i \in Dom(files) \/ \E j \in Dom(files) : j > i
=============================================================================
