---- MODULE ValueCodec ----
(* C20 input space: event field values (symbolic shapes, depth <= 2) and event timestamps (with or without a sub-millisecond
   part), placed in each section of an engine checkpoint that stores events (window buffer, sequence run, join buffer).
   The property is identity through serialise / deserialise and through restore; TLC enumerates (section, shape, time);
   the harness builds the real checkpoint from a real engine run, round-trips it and compares. *)
EXTENDS Naturals, TLC, Json
Scalars == { "null", "true", "i0", "imax", "imin", "f15", "fneg0", "nan", "inf", "ninf", "s_empty", "s_unicode", "s_quote", "ts_ns", "dur_big" }
Shapes == Scalars \cup { "arr_empty", "map_empty", "arr_i0", "arr_nan", "arr_ts_ns", "arr_s_unicode",
                          "map_i0", "map_nan", "map_ts_ns", "map_s_unicode", "arr_arr_i0", "map_map_i0", "arr_map_ts" }
Sections == { "window", "sequence", "join", "variable" }
Times == { "ms", "submilli" }
\* reference: which values JSON (the default checkpoint format) can carry at all
JsonRepresentable(s) == s \notin { "nan", "inf", "ninf", "arr_nan", "map_nan" }
VARIABLES sec, shape, tm
Init == sec \in Sections /\ shape \in Shapes /\ tm \in Times
Next == UNCHANGED <<sec, shape, tm>>
Emit == PrintT(<<"CASE", ToJson([sec |-> sec, shape |-> shape, tm |-> tm, jsonok |-> JsonRepresentable(shape)])>>)
====
