---- MODULE CkptCasesMC ----
EXTENDS CkptCases
AllClasses == {"count", "slidingcount", "part_count", "part_slidingcount", "tumbling", "sliding", "session", "seq2", "seq3ref", "kleene", "kleene_self", "kleene_long",
               "neg", "join", "distinct_limit", "wm_tumbling", "part_seq"}
====
