---- MODULE CkptTrace ----
(* C21 on recorded executions of the real FileStore + CheckpointManager under a crashing store wrapper.
   {"ev":"reset","keep":K}
   {"ev":"stored","id":i}                      save_checkpoint(i) completed (file renamed into place)
   {"ev":"ack","id":i,"files":[ids]}           checkpoint() returned Ok; directory listing afterwards
   {"ev":"crash","files":[ids]}                process dies; listing of final (non-tmp) checkpoint files
   {"ev":"corrupt","id":i}                     newest stored file made unreadable
   {"ev":"restart","ok":b,"recovered":i,"files":[ids]}   fresh FileStore + CheckpointManager::new + recover(); 0 = none
   {"ev":"newid","id":i}                       id given to the first checkpoint after the restart *)
EXTENDS Naturals, Sequences, FiniteSets, FiniteSetsExt, TLC, Json, IOUtils, TLCExt
Rec == ndJsonDeserialize(IOEnv.TRACE)
VARIABLES l, keep, stored, acked, files, bad, recov, inv
vars == <<l, keep, stored, acked, files, bad, recov, inv>>
ToS(s) == { s[i] : i \in 1..Len(s) }
IsEv(n) == l <= Len(Rec) /\ Rec[l].ev = n /\ l' = l + 1
TInit == l = 1 /\ keep = 1 /\ stored = {} /\ acked = {} /\ files = {} /\ bad = {} /\ recov = [ok |-> TRUE, id |-> 0, done |-> FALSE] /\ inv = TRUE
TReset == IsEv("reset") /\ keep' = Rec[l].keep /\ stored' = {} /\ acked' = {} /\ files' = {} /\ bad' = {} /\ recov' = [ok |-> TRUE, id |-> 0, done |-> FALSE] /\ inv' = TRUE
TStored == IsEv("stored") /\ stored' = stored \cup {Rec[l].id} /\ UNCHANGED <<keep, acked, files, bad, recov, inv>>
\* at most `keep` checkpoints are kept after every completed checkpoint() call
TAck == /\ IsEv("ack") /\ acked' = acked \cup {Rec[l].id} /\ files' = ToS(Rec[l].files)
        /\ inv' = (inv /\ Cardinality(ToS(Rec[l].files)) <= keep /\ Rec[l].id \in ToS(Rec[l].files))
        /\ UNCHANGED <<keep, stored, bad, recov>>
TCrash == IsEv("crash") /\ files' = ToS(Rec[l].files) /\ UNCHANGED <<keep, stored, acked, bad, recov, inv>>
TCorrupt == IsEv("corrupt") /\ bad' = bad \cup {Rec[l].id} /\ UNCHANGED <<keep, stored, acked, files, recov, inv>>
Readable == files \ bad
TRestart == /\ IsEv("restart")
            /\ recov' = [ok |-> Rec[l].ok, id |-> Rec[l].recovered, done |-> TRUE]
            /\ inv' = (inv
                 \* the newest completely written checkpoint is still stored when the process died (pruning only removes older ones)
                 /\ (stored # {} => Max(stored) \in files)
                 \* recovery succeeds whenever a readable checkpoint exists, and returns the newest readable one; never a partial
                 /\ (Readable # {} => (Rec[l].ok /\ Rec[l].recovered = Max(Readable)))
                 /\ (Rec[l].ok /\ Rec[l].recovered # 0 => Rec[l].recovered \in Readable)
                 /\ (Readable = {} /\ files = {} => (Rec[l].ok /\ Rec[l].recovered = 0)))
            /\ UNCHANGED <<keep, stored, acked, files, bad>>
\* ids keep increasing across restarts: never the id of a checkpoint that was ever stored
TNewId == /\ IsEv("newid") /\ inv' = (inv /\ \A i \in stored : Rec[l].id > i)
          /\ UNCHANGED <<keep, stored, acked, files, bad, recov>>
TNext == TReset \/ TStored \/ TAck \/ TCrash \/ TCorrupt \/ TRestart \/ TNewId
RCkptStore == inv
Accepted == TLCGet("stats").diameter - 1 = Len(Rec)
AcceptedMsg == IF Accepted THEN TRUE
               ELSE PrintT(<<"REJECTED at line", TLCGet("stats").diameter, Rec[TLCGet("stats").diameter]>>) /\ FALSE
====
