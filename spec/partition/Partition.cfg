CONSTANTS Keys = {"a", "b"}
N = 2
MaxLen = 7
Leak = "no"
INIT Init
NEXT Next
INVARIANT PerKey
INVARIANT NoMixing
CHECK_DEADLOCK FALSE
