---- MODULE PartGen ----
(* Case generator for C04: (operator class, key type, stream).  Each event has a type, a key index 0..NKeys (0 = the key field is
   missing), a payload and a time step.  Streams are drawn so that keys interleave: TLC enumerates/samples all key interleavings.
   `.not(...)` clauses are deliberately not a class: C01 defines a not-clause as stream-global (no such event between a match's first and
   last event, partitioned or not), which the engine implements; demanding per-partition negation here would contradict C01. *)
EXTENDS Naturals, Sequences, TLC, Json
CONSTANTS MaxLen, NKeys
Classes == {"count", "slidingcount", "tumbling", "sliding", "session", "aggregate", "seq", "seq_pred", "kleene", "seq3", "count_having",
            "api_drop_2_2", "api_oldest_2_2", "api_least_2_3", "api_drop_1_3", "api_oldest_3_2"}   \* SaseEngine with a small run budget per partition
KeyTypes == {"str", "int", "strnum"}
VARIABLES cls, kt, stream
Types(c) == IF c \in {"seq", "seq_pred", "api_drop_2_2", "api_oldest_2_2", "api_oldest_3_2"} THEN {"A", "B"} ELSE IF c \in {"kleene", "seq3", "api_least_2_3", "api_drop_1_3"} THEN {"A", "B", "C"} ELSE {"A"}
Init == cls \in Classes /\ kt \in KeyTypes /\ stream = <<>>
Next == /\ Len(stream) < MaxLen
        /\ \E t \in Types(cls), k \in 0..NKeys, x \in 0..2, dt \in {0, 1, 2, 3} : stream' = Append(stream, [type |-> t, k |-> k, x |-> x, dt |-> dt])
        /\ UNCHANGED <<cls, kt>>
Emit == Len(stream) = MaxLen => PrintT(<<"CASE", ToJson([cls |-> cls, kt |-> kt, stream |-> stream])>>)
====
