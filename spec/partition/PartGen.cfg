CONSTANTS MaxLen = 10
NKeys = 3
INIT Init
NEXT Next
INVARIANT Emit
CHECK_DEADLOCK FALSE
