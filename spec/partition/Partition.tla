---- MODULE Partition ----
(* C04: a stream partitioned by a field behaves as independent per-key runs.
   The operator is modelled the way the engine implements it: one table  key -> operator state  (count window of size N as the
   representative stateful operator, its emitted aggregate is the window content) updated by the event's key, where a missing key
   field maps to the placeholder partition.  The reference is declarative: run the single-key operator on each key's sub-sequence.
   Invariant PerKey: the outputs emitted so far, per key, equal the reference's outputs on the sub-sequence of that key.
   Faulty variants (Leak = "shared": one buffer for all keys; Leak = "collide": two keys normalised to the same table entry) must
   violate it - bin/check runs them as a sanity check of the invariant.  Every behaviour is also a case for the real engine. *)
EXTENDS Naturals, Sequences, FiniteSets, TLC, Json
CONSTANTS Keys, N, MaxLen, Leak
None == "none"                       \* event without the key field
AllKeys == Keys \cup {None}
VARIABLES stream, table, outs
Slot(k) == IF Leak = "shared" THEN "all"
           ELSE IF Leak = "collide" /\ k = None THEN CHOOSE x \in Keys : TRUE
           ELSE k
Init == stream = <<>> /\ table = [s \in AllKeys \cup {"all"} |-> <<>>] /\ outs = [k \in AllKeys |-> <<>>]
Feed(k, x) ==
  LET s == Slot(k)
      buf == Append(table[s], <<k, x>>)
  IN /\ stream' = Append(stream, [k |-> k, x |-> x])
     /\ IF Len(buf) = N
        THEN table' = [table EXCEPT ![s] = <<>>] /\ outs' = [outs EXCEPT ![k] = Append(@, buf)]
        ELSE table' = [table EXCEPT ![s] = buf] /\ UNCHANGED outs
Next == Len(stream) < MaxLen /\ \E k \in AllKeys : Feed(k, Len(stream) + 1)
\* reference: the single-key operator on the sub-sequence of key k
Sub(k) == SelectSeq(stream, LAMBDA e : e.k = k)
RefOuts(k) == LET s == Sub(k) IN [i \in 1..(Len(s) \div N) |-> [j \in 1..N |-> <<k, s[(i - 1) * N + j].x>>]]
PerKey == \A k \in AllKeys : outs[k] = RefOuts(k)
NoMixing == \A k \in AllKeys : \A i \in DOMAIN outs[k] : \A j \in DOMAIN outs[k][i] : outs[k][i][j][1] = k
====
