------------------------------ MODULE MCTrend ------------------------------
EXTENDS Trend
Q_AB    == <<[types |-> <<"A","B">>, k |-> 2]>>
Q_ABC   == <<[types |-> <<"A","B","C">>, k |-> 2]>>
Q_CB    == <<[types |-> <<"C","B">>, k |-> 2]>>
Q_CBA   == <<[types |-> <<"C","B","A">>, k |-> 2]>>
Q_AB_CB == Q_AB \o Q_CB
Q_AB_ABC == Q_AB \o Q_ABC
Q_ABC_CBA == Q_ABC \o Q_CBA
Alpha3 == {"A","B","C"}
=============================================================================
