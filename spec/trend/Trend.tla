------------------------------- MODULE Trend -------------------------------
(* Trend aggregation (C25).  Reference = number of event trends (index sets)  *)
(* matching  t1 .. tk+ .. tm ; Faithful = transcription of                    *)
(* hamlet/template.rs (builder), hamlet/aggregator.rs (process, closed        *)
(* graphlet shared / non-shared, flush), hamlet/snapshot.rs (coefficients).   *)
EXTENDS Naturals, Sequences, FiniteSets, TLC, Json, SequencesExt
CONSTANTS Queries,      \* sequence of [types : Seq(STRING), k : index of the Kleene step]
          Alphabet,     \* event types fed
          MaxLen

NQ == Len(Queries)
QId == 1..NQ

(* ---------------- reference: brute force over index subsets ------------- *)
Sorted(S) == SetToSortSeq(S, <)
Matches(q, str, S) ==
  LET idx == Sorted(S)  r == Len(idx)  ty == Queries[q].types  m == Len(ty)  k == Queries[q].k
      PatAt(j) == IF j < k THEN ty[j]
                  ELSE IF j <= k + (r - m) THEN ty[k]
                  ELSE ty[j - (r - m)]
  IN r >= m /\ \A j \in 1..r : str[idx[j]] = PatAt(j)
Brute(q, str) == Cardinality({S \in SUBSET (1..Len(str)) : Matches(q, str, S)})

(* reference, second form: dynamic programming (checked equal to Brute)      *)
RECURSIVE DPf(_, _, _)
DPf(q, str, i) ==   \* f[s] after the first i events
  LET ty == Queries[q].types  m == Len(ty)  k == Queries[q].k IN
  IF i = 0 THEN [s \in 1..m |-> 0]
  ELSE LET f == DPf(q, str, i - 1)  t == str[i] IN
       [s \in 1..m |->
          IF ty[s] # t THEN f[s]
          ELSE f[s] + (IF s = 1 THEN 1 ELSE f[s - 1]) + (IF s = k THEN f[s] ELSE 0)]
DP(q, str) == DPf(q, str, Len(str))[Len(Queries[q].types)]

(* ---------------- faithful: template builder ---------------------------- *)
RECURSIVE Base(_)
Base(q) == IF q = 1 THEN 0 ELSE Base(q - 1) + Len(Queries[q - 1].types) + 1
\* a template = set of transition records; add_transition keeps the first one per (from, ty)
Has(T, from, ty) == \E x \in T : x.from = from /\ x.ty = ty
AddTr(T, from, to, ty) ==
  IF Has(T, from, ty) THEN T ELSE T \cup {[from |-> from, ty |-> ty, to |-> to, qs |-> {}, kl |-> FALSE]}
AddQ(T, from, ty, q) ==
  {IF x.from = from /\ x.ty = ty THEN [x EXCEPT !.qs = @ \cup {q}] ELSE x : x \in T}
MarkK(T, from, ty) ==
  {IF x.from = from /\ x.ty = ty THEN [x EXCEPT !.kl = TRUE] ELSE x : x \in T}
RECURSIVE AddSeq(_, _, _)
AddSeq(T, q, p) ==   \* add_sequence, steps p..m
  LET ty == Queries[q].types IN
  IF p > Len(ty) THEN T
  ELSE AddSeq(AddQ(AddTr(T, Base(q) + p - 1, Base(q) + p, ty[p]), Base(q) + p - 1, ty[p], q), q, p + 1)
AddKleene(T, q) ==   \* add_kleene(q, type, at_state) with at_state = position of the Kleene step
  LET ty == Queries[q].types[Queries[q].k]  at == Base(q) + Queries[q].k - 1 IN
  MarkK(AddQ(AddTr(T, at, at, ty), at, ty, q), at, ty)
RECURSIVE BuildSeq(_, _)
BuildSeq(T, q) == IF q > NQ THEN T ELSE BuildSeq(AddSeq(T, q, 1), q + 1)
RECURSIVE BuildK(_, _)
BuildK(T, q) == IF q > NQ THEN T ELSE BuildK(AddKleene(T, q), q + 1)
Template == BuildK(BuildSeq({}, 1), 1)
Tr(from, ty) == IF Has(Template, from, ty)
                THEN {x \in Template : x.from = from /\ x.ty = ty} ELSE {}
Initial(q) == Base(q)
IsFinal(q, s) == s = Base(q) + Len(Queries[q].types)
Known == UNION {{Queries[q].types[p] : p \in 1..Len(Queries[q].types)} : q \in QId}
KType(q) == Queries[q].types[Queries[q].k]
Sharing(ty) == {q \in QId : KType(q) = ty}            \* queries_sharing_kleene
SharedDecision(ty) == Cardinality(Sharing(ty)) >= 2   \* optimizer: initial decision, static within bounds

(* ---------------- faithful: aggregator ---------------------------------- *)
VARIABLES str, st, fin, last, glen
vars == <<str, st, fin, last, glen>>

Pow2(n) == 2 ^ n
Coeff(i) == IF i = 0 THEN 1 ELSE Pow2(i - 1)          \* compute_kleene: 1,1,2,4,..
SumCoeff(n) == Pow2(n - 1)                            \* sum of coeff(0..n-1), n >= 1

\* process_closed_graphlet for a run of n events of type ty
Closed(s, ty, n) ==
  IF n = 0 THEN s
  ELSE IF SharedDecision(ty) /\ Cardinality(Sharing(ty)) > 1
  THEN [q \in QId |-> IF q \in Sharing(ty)
                      THEN [s[q] EXCEPT !.count = @ + Coeff(n - 1) * s[q].snap,
                                        !.snap  = SumCoeff(n) * s[q].snap]
                      ELSE s[q]]
  ELSE [q \in QId |-> IF q \in Sharing(ty) /\ s[q].in
                      THEN LET kc == (Pow2(n) - 1) * s[q].snap IN
                           [s[q] EXCEPT !.count = @ + kc, !.snap = kc]
                      ELSE s[q]]

\* update_query_state
Upd(sq, q, ty) ==
  LET trs == Tr(sq.cs, ty) IN
  IF trs = {} THEN [s |-> sq, add |-> 0]
  ELSE LET tr == CHOOSE x \in trs : TRUE IN
       IF q \notin tr.qs THEN [s |-> sq, add |-> 0]
       ELSE LET a == [sq EXCEPT !.cs = tr.to]
                b == IF tr.from = Initial(q) THEN [a EXCEPT !.in = TRUE, !.snap = 1] ELSE a
                c == IF tr.kl /\ b.in THEN [b EXCEPT !.count = @ + b.snap] ELSE b
            IN [s |-> c,
                add |-> IF IsFinal(q, tr.to) /\ c.in
                        THEN (IF c.count > 1 THEN c.count ELSE 1) ELSE 0]

Init == /\ str = <<>>
        /\ st = [q \in QId |-> [cs |-> Initial(q), count |-> 0, in |-> FALSE, snap |-> 1]]
        /\ fin = [q \in QId |-> 0]
        /\ last = "none" /\ glen = 0

Feed(t) ==
  /\ Len(str) < MaxLen
  /\ str' = Append(str, t)
  /\ IF t \notin Known THEN UNCHANGED <<st, fin, last, glen>>
     ELSE LET s1 == IF last # "none" /\ last # t THEN Closed(st, last, glen) ELSE st
              u  == [q \in QId |-> Upd(s1[q], q, t)]
          IN /\ st' = [q \in QId |-> u[q].s]
             /\ fin' = [q \in QId |-> fin[q] + u[q].add]
             /\ last' = t
             /\ glen' = IF last = t THEN glen + 1 ELSE 1
Next == \E t \in Alphabet : Feed(t)
Spec == Init /\ [][Next]_vars

\* engine-visible running value (incremental results): fin
\* flush(): close the active graphlet, add running counts, max with count
Flush(q) ==
  LET s1 == IF last # "none" THEN Closed(st, last, glen) ELSE st
      f  == IF s1[q].in /\ s1[q].count > 0 THEN fin[q] + s1[q].count ELSE fin[q]
  IN IF f > s1[q].count THEN f ELSE s1[q].count

\* faithful value of query q run alone (same arithmetic, sharing switched off)
\* is obtained by running this module with Queries = <<Queries[q]>>.

(* ---------------- properties and case generation ------------------------ *)
RefAgree == \A q \in QId : DP(q, str) = Brute(q, str)          \* spec-level cross-check
CountCorrect == \A q \in QId : Flush(q) = Brute(q, str)        \* C25 first sentence (expected to FAIL)
Emit == PrintT(<<"CASE", ToJson([str |-> str,
                                 ref |-> [q \in QId |-> Brute(q, str)],
                                 run |-> fin,
                                 flush |-> [q \in QId |-> Flush(q)]])>>)
=============================================================================
