------------------------------ MODULE Breaker ------------------------------
EXTENDS Naturals, Sequences, FiniteSets, TLC
CONSTANTS Senders, Threshold, ResetTimeout, MaxTime, MaxSends, SingleProbe
(* SingleProbe = TRUE: property-satisfying design (half-open admits one probe until it completes);
   SingleProbe = FALSE: what allow_request does today *)

VARIABLES st,          \* "closed" | "open" | "half"
          fails,       \* consecutive failures
          lastFail,    \* time of last failure (0 = none)
          now,
          pc,          \* sender |-> "idle" | "sending"   (between allow_request=true and record_*)
          probe,       \* half-open probe in flight (design variable, used only when SingleProbe)
          handed, delivered, dlq,   \* event ids
          nsent,
          openedAt,    \* history: fails count when it opened (for the "exactly threshold" property)
          admittedInHalf,  \* history: number of sends admitted since entering half-open and before any result
          hist             \* the schedule performed so far (for replay into the real ResilientSink)
vars == <<st, fails, lastFail, now, pc, probe, handed, delivered, dlq, nsent, openedAt, admittedInHalf, hist>>

Init == /\ st = "closed" /\ fails = 0 /\ lastFail = 0 /\ now = 1
        /\ pc = [s \in Senders |-> [state |-> "idle", ev |-> 0]]
        /\ probe = FALSE /\ handed = {} /\ delivered = {} /\ dlq = {} /\ nsent = 0
        /\ openedAt = 0 /\ admittedInHalf = 0 /\ hist = <<>>

Tick == now < MaxTime /\ now' = now + 1 /\ hist' = Append(hist, [a |-> "tick", s |-> "", ev |-> 0, ok |-> FALSE])
        /\ UNCHANGED <<st, fails, lastFail, pc, probe, handed, delivered, dlq, nsent, openedAt, admittedInHalf>>

\* ResilientSink::send, step 1: allow_request (atomic under the mutex)
Begin(s) ==
  /\ pc[s].state = "idle" /\ nsent < MaxSends
  /\ LET ev == nsent + 1 IN
     /\ nsent' = ev /\ handed' = handed \cup {ev}
     /\ CASE st = "closed" ->
               /\ pc' = [pc EXCEPT ![s] = [state |-> "sending", ev |-> ev]]
               /\ UNCHANGED <<st, probe, dlq, admittedInHalf>>
          [] st = "open" ->
               IF lastFail # 0 /\ now - lastFail >= ResetTimeout
                 THEN /\ st' = "half" /\ probe' = TRUE /\ admittedInHalf' = 1
                      /\ pc' = [pc EXCEPT ![s] = [state |-> "sending", ev |-> ev]] /\ UNCHANGED dlq
                 ELSE /\ dlq' = dlq \cup {ev} /\ UNCHANGED <<st, probe, pc, admittedInHalf>>   \* rejected -> DLQ
          [] st = "half" ->
               IF SingleProbe /\ probe
                 THEN /\ dlq' = dlq \cup {ev} /\ UNCHANGED <<st, probe, pc, admittedInHalf>>
                 ELSE /\ pc' = [pc EXCEPT ![s] = [state |-> "sending", ev |-> ev]]
                      /\ probe' = TRUE /\ admittedInHalf' = admittedInHalf + 1 /\ UNCHANGED <<st, dlq>>
  /\ hist' = Append(hist, [a |-> "begin", s |-> s, ev |-> nsent + 1, ok |-> FALSE])
  /\ UNCHANGED <<fails, lastFail, now, delivered, openedAt>>

\* step 2: inner.send completes with outcome ok, then record_success / record_failure (+ DLQ on failure)
Finish(s, ok) ==
  /\ pc[s].state = "sending"
  /\ pc' = [pc EXCEPT ![s] = [state |-> "idle", ev |-> 0]]
  /\ IF ok
       THEN /\ delivered' = delivered \cup {pc[s].ev} /\ fails' = 0
            /\ st' = IF st = "half" THEN "closed" ELSE st
            /\ UNCHANGED <<lastFail, dlq, openedAt>>
       ELSE /\ dlq' = dlq \cup {pc[s].ev} /\ fails' = fails + 1 /\ lastFail' = now
            /\ st' = CASE st = "closed" -> IF fails + 1 >= Threshold THEN "open" ELSE "closed"
                       [] st = "half" -> "open"
                       [] OTHER -> st
            /\ openedAt' = IF st = "closed" /\ fails + 1 >= Threshold THEN fails + 1 ELSE openedAt
            /\ UNCHANGED delivered
  /\ probe' = FALSE
  /\ admittedInHalf' = IF st = "half" THEN 0 ELSE admittedInHalf
  /\ hist' = Append(hist, [a |-> "finish", s |-> s, ev |-> pc[s].ev, ok |-> ok])
  /\ UNCHANGED <<now, handed, nsent>>

Next == Tick \/ \E s \in Senders : Begin(s) \/ \E ok \in BOOLEAN : Finish(s, ok)

\* ---- C45 ----
InFlight == { pc[s].ev : s \in {x \in Senders : pc[x].state = "sending"} }
NoLoss == handed = delivered \cup dlq \cup InFlight /\ delivered \cap dlq = {}
OpensExactly == openedAt \in {0, Threshold}
RejectsWhileOpen == TRUE  \* encoded in Begin: open + timeout not elapsed -> DLQ (checked in trace validation against impl)
OneProbe == admittedInHalf <= 1
Spec == Init /\ [][Next]_vars
StateView == <<st, fails, lastFail, now, pc, probe, handed, delivered, dlq, nsent, openedAt, admittedInHalf>>
=============================================================================
