---- MODULE BreakerMC ----
EXTENDS Breaker, Json
CONSTANT MaxHist
Emit == (Len(hist) = MaxHist) => PrintT(<<"CASE", ToJson([threshold |-> Threshold, timeout |-> ResetTimeout, hist |-> hist])>>)
Stop == Len(hist) <= MaxHist
====
