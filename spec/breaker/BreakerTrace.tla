---- MODULE BreakerTrace ----
(* {"ev":"reset"}  {"ev":"tick"}  {"ev":"begin","s":sender,"evid":n,"admitted":b}  {"ev":"finish","s":sender,"evid":n,"ok":b}
   {"ev":"end","delivered":[ids],"dlq":[ids],"dlq_ok":b}   (dlq_ok: every DLQ line is readable JSON naming the sink and an error)
   The model runs alongside; property-level checks use the recorded admissions / deliveries / DLQ contents. *)
EXTENDS BreakerMC, IOUtils, TLCExt
Rec == ndJsonDeserialize(IOEnv.TRACE)
VARIABLES l, conf, rin, rhalf, rst, rfails, rlast, radm, endok
tvars == <<vars, l, conf, rin, rhalf, rst, rfails, rlast, radm, endok>>
ToS(s) == { s[i] : i \in 1..Len(s) }
IsEv(n) == l <= Len(Rec) /\ Rec[l].ev = n /\ l' = l + 1
TInit == Init /\ l = 1 /\ conf = TRUE /\ rin = {} /\ rhalf = 0 /\ rst = "closed" /\ rfails = 0 /\ rlast = 0 /\ radm = TRUE /\ endok = TRUE
TReset == /\ IsEv("reset")
          /\ st' = "closed" /\ fails' = 0 /\ lastFail' = 0 /\ now' = 1 /\ pc' = [s \in Senders |-> [state |-> "idle", ev |-> 0]]
          /\ probe' = FALSE /\ handed' = {} /\ delivered' = {} /\ dlq' = {} /\ nsent' = 0 /\ openedAt' = 0 /\ admittedInHalf' = 0 /\ hist' = <<>>
          /\ conf' = TRUE /\ rin' = {} /\ rhalf' = 0 /\ rst' = "closed" /\ rfails' = 0 /\ rlast' = 0 /\ radm' = TRUE /\ endok' = TRUE
TTick == IsEv("tick") /\ Tick /\ UNCHANGED <<conf, rin, rhalf, rst, rfails, rlast, radm, endok>>
\* property-level breaker contract tracked from the RECORDED outcomes only (rst/rfails/rlast follow the contract's own definition)
TBegin == /\ IsEv("begin") /\ Begin(Rec[l].s)
          /\ LET adm == Rec[l].admitted
                 mayProbe == rst = "open" /\ rlast # 0 /\ now - rlast >= ResetTimeout
             IN /\ conf' = (conf /\ adm = (pc'[Rec[l].s].state = "sending"))
                /\ rin' = IF adm THEN rin \cup {Rec[l].evid} ELSE rin
                \* contract: closed admits; open rejects until the timeout has passed, then admits one probe; half-open admits nothing more until the probe completes
                /\ radm' = (radm /\ CASE rst = "closed" -> adm
                                      [] rst = "open" -> adm = mayProbe
                                      [] rst = "half" -> ~adm)
                /\ rst' = IF rst = "open" /\ adm THEN "half" ELSE rst
                /\ rhalf' = IF (rst = "open" /\ adm) THEN 1 ELSE IF rst = "half" /\ adm THEN rhalf + 1 ELSE rhalf
          /\ UNCHANGED <<rfails, rlast, endok>>
TFinish == /\ IsEv("finish") /\ Finish(Rec[l].s, Rec[l].ok)
           /\ rin' = rin \ {Rec[l].evid}
           /\ IF Rec[l].ok THEN /\ rfails' = 0 /\ rst' = (IF rst = "half" THEN "closed" ELSE rst) /\ UNCHANGED rlast
              ELSE /\ rfails' = rfails + 1 /\ rlast' = now
                   /\ rst' = (IF rst = "half" THEN "open" ELSE IF rst = "closed" /\ rfails + 1 >= Threshold THEN "open" ELSE rst)
           /\ rhalf' = IF rst = "half" THEN 0 ELSE rhalf
           /\ UNCHANGED <<conf, radm, endok>>
TEnd == /\ IsEv("end")
        /\ endok' = (/\ Rec[l].dlq_ok
                     /\ ToS(Rec[l].delivered) \cap ToS(Rec[l].dlq) = {}
                     /\ ToS(Rec[l].delivered) \cup ToS(Rec[l].dlq) \cup rin = 1..nsent     \* every handed event delivered, dead-lettered or still in flight
                     /\ Len(Rec[l].dlq) = Cardinality(ToS(Rec[l].dlq)))                    \* and dead-lettered once
        /\ conf' = (conf /\ ToS(Rec[l].delivered) = delivered /\ ToS(Rec[l].dlq) = dlq)
        /\ UNCHANGED <<vars, rin, rhalf, rst, rfails, rlast, radm>>
TNext == TReset \/ TTick \/ TBegin \/ TFinish \/ TEnd
RContract == radm           \* opens after exactly Threshold consecutive failures, rejects while open, one probe while half-open
RNoLoss == endok
Conform == conf
Accepted == TLCGet("stats").diameter - 1 = Len(Rec)
AcceptedMsg == IF Accepted THEN TRUE
               ELSE PrintT(<<"REJECTED at line", TLCGet("stats").diameter, Rec[TLCGet("stats").diameter]>>) /\ FALSE
====
