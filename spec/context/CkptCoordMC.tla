---- MODULE CkptCoordMC ----
EXTENDS CkptCoord, Json
Emit == (Len(hist) = MaxHist) => PrintT(<<"CASE", ToJson([cap |-> Cap, n |-> N, hist |-> hist, done |-> done, pending |-> pending,
                                                             cut |-> ConsistentCut, stP |-> stP, stC |-> stC])>>)
Stop == Len(hist) <= MaxHist
====
