--------------------------- MODULE Contexts ---------------------------
(* Two contexts on their own threads: P (producer) consumes inputs 1..N and emits one derived event per input to C
   (consumer).  Bounded queues; the cross-context forward is a try_send (context.rs drain_and_route_output).
   Coordinated checkpoint (CheckpointCoordinator::initiate): a barrier is put directly into EVERY context's queue;
   a context snapshots its engine when it takes the barrier (handle_checkpoint_barrier).
   Switches: DropOnFull = TRUE  what the code does when the consumer's queue is full (the event is dropped, a warning is logged)
                        = FALSE the property-satisfying design (the forward blocks)
             Aligned    = FALSE what the code does (barriers injected into every queue)
                        = TRUE  barriers enter at the sources and flow with the data *)
EXTENDS Naturals, Sequences, FiniteSets, TLC
CONSTANTS N, Cap, DropOnFull, Aligned, MaxHist
VARIABLES next, qP, qC, stP, stC, snapP, snapC, barSent, lost, hist
vars == <<next, qP, qC, stP, stC, snapP, snapC, barSent, lost, hist>>
NoSnap == [ok |-> FALSE, v |-> <<>>]
Init == /\ next = 1 /\ qP = <<>> /\ qC = <<>> /\ stP = <<>> /\ stC = <<>>
        /\ snapP = NoSnap /\ snapC = NoSnap /\ barSent = FALSE /\ lost = {} /\ hist = <<>>
H(a) == hist' = Append(hist, a)
Ingest == /\ next <= N /\ Len(qP) < Cap
          /\ qP' = Append(qP, <<"ev", next>>) /\ next' = next + 1 /\ H("ingest")
          /\ UNCHANGED <<qC, stP, stC, snapP, snapC, barSent, lost>>
StepP ==
  /\ qP # <<>> /\ H("stepP")
  /\ LET m == Head(qP) IN
     IF m[1] = "ev" THEN
        /\ stP' = Append(stP, m[2])
        /\ IF Len(qC) < Cap
             THEN qC' = Append(qC, <<"ev", m[2]>>) /\ lost' = lost /\ qP' = Tail(qP)
             ELSE IF DropOnFull
                    THEN qC' = qC /\ lost' = lost \cup {m[2]} /\ qP' = Tail(qP)
                    ELSE FALSE
        /\ UNCHANGED <<snapP, snapC>>
     ELSE
        /\ snapP' = [ok |-> TRUE, v |-> stP] /\ qP' = Tail(qP)
        /\ IF Aligned /\ Len(qC) < Cap THEN qC' = Append(qC, <<"bar">>) ELSE IF Aligned THEN FALSE ELSE qC' = qC
        /\ UNCHANGED <<stP, snapC, lost>>
  /\ UNCHANGED <<next, stC, barSent>>
StepC ==
  /\ qC # <<>> /\ H("stepC")
  /\ LET m == Head(qC) IN
     IF m[1] = "ev" THEN stC' = Append(stC, m[2]) /\ UNCHANGED snapC
                    ELSE snapC' = [ok |-> TRUE, v |-> stC] /\ UNCHANGED stC
  /\ qC' = Tail(qC)
  /\ UNCHANGED <<next, qP, stP, snapP, barSent, lost>>
Initiate ==
  /\ ~barSent /\ Len(qP) < Cap /\ (Aligned \/ Len(qC) < Cap) /\ H("initiate")
  /\ qP' = Append(qP, <<"bar">>)
  /\ qC' = IF Aligned THEN qC ELSE Append(qC, <<"bar">>)
  /\ barSent' = TRUE
  /\ UNCHANGED <<next, stP, stC, snapP, snapC, lost>>
Next == Ingest \/ StepP \/ StepC \/ Initiate
Spec == Init /\ [][Next]_vars
ToSet(s) == {s[i] : i \in 1..Len(s)}
IsPrefix(a, b) == Len(a) <= Len(b) /\ \A i \in 1..Len(a) : a[i] = b[i]
InFlightOf(q) == { q[i][2] : i \in {j \in 1..Len(q) : q[j][1] = "ev"} }
\* C26: everything P produced and that is no longer in flight was consumed by C, in order, exactly once
PDelivered(p, c, inflight) == IsPrefix(c, SelectSeq(p, LAMBDA x : x \notin inflight \/ TRUE)) /\ ToSet(p) = ToSet(c) \cup inflight
Delivered == /\ IsPrefix(stC, stP) /\ ToSet(stP) = ToSet(stC) \cup InFlightOf(qC)
\* C27: a completed checkpoint is a consistent cut: what P had produced at its snapshot is what C had consumed at its snapshot
ConsistentCut == (snapP.ok /\ snapC.ok) => snapP.v = snapC.v
StateView == <<next, qP, qC, stP, stC, snapP, snapC, barSent, lost>>
=======================================================================
