---- MODULE ContextsMC ----
EXTENDS Contexts, Json
Quiet == qP = <<>> /\ qC = <<>> /\ next > N
Emit == (Len(hist) = MaxHist \/ (Quiet /\ barSent)) => PrintT(<<"CASE", ToJson([cap |-> Cap, n |-> N, hist |-> hist, stP |-> stP, stC |-> stC,
                                     snapP |-> snapP, snapC |-> snapC, lost |-> lost, delivered |-> Delivered, cut |-> ConsistentCut])>>)
Stop == Len(hist) <= MaxHist
====
