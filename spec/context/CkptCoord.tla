--------------------------- MODULE CkptCoord ---------------------------
(* C27, the coordinator's protocol (context.rs CheckpointCoordinator) on top of the two-context pipeline of Contexts.tla:
     Initiate   if no checkpoint is pending: take the next id, try_send a barrier carrying it into EVERY context's queue (a full queue
                does not get one - the failure is only logged), remember the checkpoint as pending;
     a context that takes a barrier snapshots its engine and sends an ack (context, id, snapshot) on the ack channel;
     Drain      try_complete: take acks in channel order; an ack whose id is not the pending one is discarded; the checkpoint is complete
                when every context has acked it; draining stops at the first completion.
   Several checkpoints per behaviour, so stale acks, skipped initiations and partially delivered barriers are all reachable.
   ConsistentCut (C27): for every completed checkpoint, what P had produced at its snapshot = what C had consumed at its snapshot.
   The faithful model violates it (known finding: barriers are injected into every queue instead of flowing with the data);
   what this module adds is the exact prediction of WHICH checkpoints complete with WHICH snapshots, so that any other way of
   assembling a checkpoint (stale acks, reused ids, missing contexts) shows as a difference from the prediction. *)
EXTENDS Naturals, Sequences, FiniteSets, TLC
CONSTANTS N, Cap, MaxHist, MaxCkpt, RecordHist    \* RecordHist = FALSE: finite state space for liveness checking
VARIABLES next, qP, qC, stP, stC, pending, acks, nextId, ackq, done, lost, hist
vars == <<next, qP, qC, stP, stC, pending, acks, nextId, ackq, done, lost, hist>>
Ctx == {"c1", "c2"}
Init == /\ next = 1 /\ qP = <<>> /\ qC = <<>> /\ stP = <<>> /\ stC = <<>> /\ pending = 0 /\ acks = [c \in {} |-> 0]
        /\ nextId = 1 /\ ackq = <<>> /\ done = <<>> /\ lost = {} /\ hist = <<>>
H(a) == hist' = IF RecordHist THEN Append(hist, a) ELSE hist
Ingest == /\ next <= N /\ Len(qP) < Cap
          /\ qP' = Append(qP, <<"ev", next>>) /\ next' = next + 1 /\ H("ingest")
          /\ UNCHANGED <<qC, stP, stC, pending, acks, nextId, ackq, done, lost>>
StepP ==
  /\ qP # <<>> /\ H("stepP")
  /\ LET m == Head(qP) IN
     IF m[1] = "ev" THEN
        /\ stP' = Append(stP, m[2])
        /\ IF Len(qC) < Cap THEN qC' = Append(qC, <<"ev", m[2]>>) /\ lost' = lost
                            ELSE qC' = qC /\ lost' = lost \cup {m[2]}
        /\ UNCHANGED ackq
     ELSE /\ ackq' = Append(ackq, [c |-> "c1", id |-> m[2], v |-> Len(stP)]) /\ UNCHANGED <<stP, qC, lost>>
  /\ qP' = Tail(qP)
  /\ UNCHANGED <<next, stC, pending, acks, nextId, done>>
StepC ==
  /\ qC # <<>> /\ H("stepC")
  /\ LET m == Head(qC) IN
     IF m[1] = "ev" THEN stC' = Append(stC, m[2]) /\ UNCHANGED ackq
                    ELSE ackq' = Append(ackq, [c |-> "c2", id |-> m[2], v |-> Len(stC)]) /\ UNCHANGED stC
  /\ qC' = Tail(qC)
  /\ UNCHANGED <<next, qP, stP, pending, acks, nextId, done, lost>>
Initiate ==
  /\ nextId <= MaxCkpt /\ H("initiate")
  /\ IF pending # 0 THEN UNCHANGED <<qP, qC, pending, acks, nextId>>       \* "already in progress, skipping"
     ELSE /\ qP' = IF Len(qP) < Cap THEN Append(qP, <<"bar", nextId>>) ELSE qP
          /\ qC' = IF Len(qC) < Cap THEN Append(qC, <<"bar", nextId>>) ELSE qC
          /\ pending' = nextId /\ acks' = [c \in {} |-> 0] /\ nextId' = nextId + 1
  /\ UNCHANGED <<next, stP, stC, ackq, done, lost>>
\* try_complete: fold over the ack channel until the first completion
RECURSIVE DrainF(_, _, _)
DrainF(q, pd, ak) ==     \* returns <<rest of the channel, pending, acks, completed checkpoint or <<>> >>
  IF q = <<>> THEN <<q, pd, ak, <<>>>>
  ELSE LET a == Head(q) IN
       IF pd = 0 \/ a.id # pd THEN DrainF(Tail(q), pd, ak)
       ELSE LET ak2 == [c \in DOMAIN ak \cup {a.c} |-> IF c = a.c THEN a.v ELSE ak[c]] IN
            IF DOMAIN ak2 = Ctx THEN <<Tail(q), 0, [c \in {} |-> 0], <<[id |-> pd, p |-> ak2["c1"], c |-> ak2["c2"]]>>>>
            ELSE DrainF(Tail(q), pd, ak2)
Drain == /\ ackq # <<>> /\ H("drain")
         /\ LET r == DrainF(ackq, pending, acks) IN
            /\ ackq' = r[1] /\ pending' = r[2] /\ acks' = r[3] /\ done' = done \o r[4]
         /\ UNCHANGED <<next, qP, qC, stP, stC, nextId, lost>>
Next == Ingest \/ StepP \/ StepC \/ Initiate \/ Drain
\* the ack channel of the real coordinator holds 2 * |contexts| messages; schedules that would overfill it are not generated
AckRoom == Len(ackq) <= 4
ConsistentCut == \A i \in 1..Len(done) : done[i].p = done[i].c
\* every completed checkpoint is made of acks that answer ITS barrier: ids strictly increase and no id completes twice
IdsFresh == \A i, j \in 1..Len(done) : i < j => done[i].id < done[j].id
StateView == <<next, qP, qC, stP, stC, pending, acks, nextId, ackq, done, lost>>
\* ---- liveness (beyond the listed properties): under weak fairness of the contexts and of try_complete, does a checkpoint that was
\* initiated ever complete?  It does not when a barrier could not be enqueued (full queue at initiation): the checkpoint stays pending
\* for ever and, since a pending checkpoint blocks every later initiation, checkpointing stops for good.
FairSpec == Init /\ [][Next]_vars /\ WF_vars(StepP) /\ WF_vars(StepC) /\ WF_vars(Drain)
EventuallyCompletes == [](pending # 0 => <>(pending = 0))
=======================================================================
