---- MODULE Reload ----
(* C23: reloading a running engine with the same program changes nothing observable; reloading with a changed program makes
   every stream whose definition changed behave like a freshly loaded stream of the new program from that point on.
   A case = (edit class, stream of events, reload position).  Edit classes name a program P and its successor P':
     identity edits  (P' = P)  over the stateful operator kinds, and
     change edits    (threshold, added operation, window size, merge gains an input, emitted field).
   Reference semantics of reload as a function on abstract engine state:
     Reload(P, P') keeps the state of every stream whose definition is unchanged and replaces every changed stream by a fresh one.
   For the harness this gives two oracles: identity edits -> the never-reloaded twin; change edits -> for the changed stream,
   a fresh engine of P' fed the events after the reload point.  TLC enumerates cases. *)
EXTENDS Naturals, Sequences, TLC, Json
CONSTANT MaxLen
Identity == { "id_count", "id_slidingcount", "id_tumbling", "id_filter", "id_seq", "id_join", "id_merge_window", "id_part_window", "id_kleene", "id_two_streams" }
Changes == { "ch_threshold", "ch_add_where", "ch_window_size", "ch_merge_gains_input", "ch_emit_field", "ch_other_stream_only",
             "ch_rename", "ch_remove_op", "ch_seq_step_added", "ch_seq_predicate", "ch_upstream_only",
             "ch_src_merge_branch_filter", "ch_src_step_filter", "ch_src_step_all", "ch_src_second_type", "ch_src_join_key" }
Ev == [type : {"A", "B", "C"}, k : 1..2, x : 0..3, dt : 0..2]
VARIABLES cls, stream, at
Init == cls \in Identity \cup Changes /\ stream = <<>> /\ at = 0
Next == /\ Len(stream) < MaxLen
        /\ \E e \in Ev : stream' = Append(stream, e)
        /\ \E a \in 0..MaxLen : at' = a
        /\ UNCHANGED cls
Emit == (Len(stream) = MaxLen /\ at <= MaxLen) => PrintT(<<"CASE", ToJson([cls |-> cls, stream |-> stream, at |-> at])>>)
====
