CONSTANT MaxLen = 8
INIT Init
NEXT Next
INVARIANT Emit
CHECK_DEADLOCK FALSE
