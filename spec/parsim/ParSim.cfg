CONSTANTS Keys = {"a", "b", "c"}
NW = 2
MaxLen = 6
Pipeline = "window"
Dist = "hash"
INIT Init
NEXT Next
INVARIANT Same
CHECK_DEADLOCK FALSE
