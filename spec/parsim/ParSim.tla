---- MODULE ParSim ----
(* C18: `varpulis simulate` with N workers emits the same multiset of outputs as with one worker, for stateless pipelines and for
   pipelines whose only state is partitioned by the key the CLI distributes on.
   Design model of the multi-worker branches of run_simulation:
     stateless pipeline  -> the batch is cut into N contiguous chunks (Dist = "chunk");
     otherwise           -> every event goes to worker  h(key)  for an arbitrary function h (Dist = "hash"; TLC quantifies over
                            every h, so nothing depends on the hash), events without the key field to  g(type);
   each worker runs its own copy of the pipeline over its events in input order.  The pipeline is either the stateless filter
   (x > 0) or the per-key count window of size 2 (the representative key-partitioned state).
   Invariant Same: bag of outputs of the N-worker run = bag of outputs of the 1-worker run.
   Sanity variants that must fail: Dist = "chunk" with the stateful pipeline; Dist = "rr_event" (per-event round robin) likewise. *)
EXTENDS Naturals, Sequences, FiniteSets, Bags, TLC
CONSTANTS Keys, NW, MaxLen, Pipeline, Dist
VARIABLES stream, h
Ev == [k : Keys, x : 0..1]
Init == stream = <<>> /\ h \in [Keys -> 1..NW]
Next == Len(stream) < MaxLen /\ \E e \in Ev : stream' = Append(stream, e) /\ UNCHANGED h
Idx == 1..Len(stream)
\* outputs of one engine over the sub-sequence of positions P (in order): a bag of output records
RECURSIVE Run(_, _, _)
Run(ps, buf, acc) ==   \* ps: sequence of positions still to process; buf: key -> pending position or 0
  IF ps = <<>> THEN acc
  ELSE LET i == Head(ps) e == stream[i] IN
       IF Pipeline = "filter"
       THEN Run(Tail(ps), buf, IF e.x > 0 THEN acc (+) SetToBag({<<"out", i>>}) ELSE acc)
       ELSE IF buf[e.k] = 0 THEN Run(Tail(ps), [buf EXCEPT ![e.k] = i], acc)
            ELSE Run(Tail(ps), [buf EXCEPT ![e.k] = 0], acc (+) SetToBag({<<"win", buf[e.k], i>>}))
SeqOf(S) == LET F[n \in 0..Len(stream)] == IF n = 0 THEN <<>> ELSE IF n \in S THEN Append(F[n - 1], n) ELSE F[n - 1] IN F[Len(stream)]
Engine(S) == Run(SeqOf(S), [k \in Keys |-> 0], EmptyBag)
Chunk == (Len(stream) + NW - 1) \div NW
Worker(i) == IF Dist = "hash" THEN h[stream[i].k]
             ELSE IF Dist = "chunk" THEN ((i - 1) \div (IF Chunk = 0 THEN 1 ELSE Chunk)) + 1
             ELSE ((i - 1) % NW) + 1
RECURSIVE SumBags(_)
SumBags(ws) == IF ws = {} THEN EmptyBag ELSE LET w == CHOOSE x \in ws : TRUE IN Engine({i \in Idx : Worker(i) = w}) (+) SumBags(ws \ {w})
Same == SumBags(1..NW) = Engine(Idx)
====
