---- MODULE ParGen ----
(* Case generator for C18: (pipeline class, key kind, mode, worker count, event stream with interleaved keys).
   Key index 0 = the event has no key field (such events form the engine's placeholder partition). *)
EXTENDS Naturals, Sequences, TLC, Json
CONSTANTS MaxLen, NKeys
Classes == {"filter", "chain", "two_streams", "pcount", "pslide", "pagg", "pseq", "pkleene", "pseq_where"}
VARIABLES cls, kk, mode, nw, stream
Types(c) == IF c \in {"pseq", "pseq_where"} THEN {"A", "B"} ELSE IF c = "pkleene" THEN {"A", "B", "C"} ELSE IF c = "two_streams" THEN {"A", "B"} ELSE {"A"}
Init == cls \in Classes /\ kk \in {"str", "int"} /\ mode \in {"preload", "streaming"} /\ nw \in 2..8 /\ stream = <<>>
Next == /\ Len(stream) < MaxLen
        /\ \E t \in Types(cls), k \in 0..NKeys, x \in 0..3 : stream' = Append(stream, [type |-> t, k |-> k, x |-> x])
        /\ UNCHANGED <<cls, kk, mode, nw>>
Emit == Len(stream) = MaxLen => PrintT(<<"CASE", ToJson([cls |-> cls, kk |-> kk, mode |-> mode, nw |-> nw, stream |-> stream])>>)
====
