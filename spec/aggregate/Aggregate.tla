---- MODULE Aggregate ----
(* C14: aggregates equal their mathematical definitions on every execution path.
   A batch is a sequence of integer tokens: numeric values in HALF units (2 = 1.0, 3 = 1.5, -6 = -3.0) and the sentinels
   M = 100 (field missing), S = 101 (a string value), N = 102 (NaN).  Reference results are exact rationals [n, d] over the numeric values (missing and
   non-numeric values are skipped, as documented; NaN is skipped by sum/avg/min/max and left open for the others).
   `big` asks the harness to add 10^9 to every numeric value: the variance is unchanged, sums and extrema shift. *)
EXTENDS Integers, Sequences, FiniteSets, TLC, Json
CONSTANTS MaxLen
Tokens == {2, 4, 3, -6, 100, 101, 102}
M == 100
S == 101
N == 102
Num(t) == t < 100
Nums(b) == SelectSeq(b, Num)
RECURSIVE SumSeq(_)
SumSeq(s) == IF s = <<>> THEN 0 ELSE Head(s) + SumSeq(Tail(s))
RECURSIVE SumSq(_)
SumSq(s) == IF s = <<>> THEN 0 ELSE Head(s) * Head(s) + SumSq(Tail(s))
RECURSIVE MinSeq(_)
MinSeq(s) == IF Len(s) = 1 THEN s[1] ELSE LET m == MinSeq(Tail(s)) IN IF Head(s) < m THEN Head(s) ELSE m
RECURSIVE MaxSeq(_)
MaxSeq(s) == IF Len(s) = 1 THEN s[1] ELSE LET m == MaxSeq(Tail(s)) IN IF Head(s) > m THEN Head(s) ELSE m
\* ema with period 3: alpha = 1/2; value in units of 1/2^(k) halves: returned as [n, d] with d = 2^(len-1)
RECURSIVE EmaNum(_, _)
EmaNum(s, k) == \* numerator of ema over s[1..k] with denominator 2^(k-1)
  IF k = 1 THEN s[1] ELSE EmaNum(s, k - 1) + s[k] * (2 ^ (k - 2))
Ref(b) ==
  LET x == Nums(b)  n == Len(x)  s == SumSeq(x)  q == SumSq(x) IN
  [ count |-> Len(b),
    n     |-> n,
    sum   |-> s,                                   \* in halves
    avg   |-> IF n = 0 THEN [ok |-> FALSE, n |-> 0, d |-> 1] ELSE [ok |-> TRUE, n |-> s, d |-> n],          \* halves
    min   |-> IF n = 0 THEN [ok |-> FALSE, v |-> 0] ELSE [ok |-> TRUE, v |-> MinSeq(x)],
    max   |-> IF n = 0 THEN [ok |-> FALSE, v |-> 0] ELSE [ok |-> TRUE, v |-> MaxSeq(x)],
    \* sample variance (n - 1) in QUARTER units: (n q - s^2) / (n (n - 1))
    var   |-> IF n < 2 THEN [ok |-> FALSE, n |-> 0, d |-> 1] ELSE [ok |-> TRUE, n |-> n * q - s * s, d |-> n * (n - 1)],
    first |-> IF b = <<>> THEN [ok |-> FALSE, v |-> 0] ELSE IF Num(b[1]) THEN [ok |-> TRUE, v |-> b[1]] ELSE [ok |-> FALSE, v |-> 0],
    last  |-> IF b = <<>> THEN [ok |-> FALSE, v |-> 0] ELSE IF Num(b[Len(b)]) THEN [ok |-> TRUE, v |-> b[Len(b)]] ELSE [ok |-> FALSE, v |-> 0],
    distinct |-> Cardinality({ x[i] : i \in 1..n }),
    ema   |-> IF n = 0 THEN [ok |-> FALSE, n |-> 0, d |-> 1] ELSE [ok |-> TRUE, n |-> EmaNum(x, n), d |-> 2 ^ (n - 1)],
    hasnan |-> \E i \in 1..Len(b) : b[i] = N,
    hasstr |-> \E i \in 1..Len(b) : b[i] = S,
    hasmissing |-> \E i \in 1..Len(b) : b[i] = M ]
VARIABLES batch, big
Init == batch \in UNION { [1..k -> Tokens] : k \in 0..MaxLen } /\ big \in BOOLEAN
Next == UNCHANGED <<batch, big>>
\* sanity of the reference: variance is never negative, min <= avg <= max
RefSane == LET r == Ref(batch) IN
           /\ (r.var.ok => r.var.n >= 0)
           /\ (r.avg.ok => r.min.v * r.avg.d <= r.avg.n /\ r.avg.n <= r.max.v * r.avg.d)
Emit == PrintT(<<"CASE", ToJson([batch |-> batch, big |-> big, ref |-> Ref(batch)])>>)
====
