CONSTANTS MaxLen = 5
INIT Init
NEXT Next
INVARIANT RefSane
INVARIANT Emit
CHECK_DEADLOCK FALSE
