---- MODULE CoordMC ----
EXTENDS Coordinator
CONSTANT MaxLen
MCOrder == <<"p1", "p2", "q1">>
MCGroups == [g \in {"g1", "g2"} |-> IF g = "g1" THEN {"p1", "p2"} ELSE {"q1"}]
\* heartbeats carry a worker-side count the model does not constrain: kept out of the exhaustive run (they make Bookkeeping false at once)
NoHbNext == \/ \E w \in W : Register(w) \/ Deregister(w)
            \/ \E g \in G : \E tasks \in [Groups[g] -> W] : ~groups[g].exists /\ PlanDeployWith(g, [p \in Groups[g] |-> "none"], tasks)
            \/ \E g \in G : PlanTeardown(g)
            \/ \E p \in P, t \in W : PlanMigrate(p, t)
            \/ \E pl \in plans : \/ (pl.kind = "deploy" /\ \E ok \in [Groups[pl.g] -> BOOLEAN] : CommitDeploy(pl, ok))
                                 \/ CommitTeardown(pl)
                                 \/ \E ok \in BOOLEAN : CommitMigrate(pl, ok)
\* sequential use (at most one plan in flight, no registration changes while a plan is open, no re-registration): the bookkeeping holds
SeqNext == \/ (plans = {} /\ \E w \in W : (~workers[w].reg /\ Register(w)) \/ (workers[w].assigned = <<>> /\ Deregister(w)))
           \/ (plans = {} /\ \E g \in G : \E tasks \in [Groups[g] -> W] : ~groups[g].exists /\ PlanDeployWith(g, [p \in Groups[g] |-> "none"], tasks))
           \/ (plans = {} /\ \E g \in G : PlanTeardown(g))
           \/ (plans = {} /\ \E p \in P, t \in W : groups[GroupOf(p)].pl[p].st = "running" /\ groups[GroupOf(p)].pl[p].w # t /\ PlanMigrate(p, t))
           \/ \E pl \in plans : \/ (pl.kind = "deploy" /\ \E ok \in [Groups[pl.g] -> BOOLEAN] : CommitDeploy(pl, ok))
                                \/ CommitTeardown(pl)
                                \/ \E ok \in BOOLEAN : CommitMigrate(pl, ok)
Bound == nplans <= MaxPlans
====
