---- MODULE CoordTrace ----
(* Trace validation of the real Coordinator.  Records:
   {"ev":"reset"}
   {"ev":"op","a":<call>, <arguments>, "ok":<the call returned Ok>, "res":<planner choice / sweep result>, "st":<projected real state>}
   The faithful model performs the same call; `conf` = the model's state equals the projected real state after every call.
   Property-level checks use the RECORDED states only:
     C32  RNoNewErrs   : the discrepancy set of the real state is contained in the one the faithful model predicts
                         (all predicted discrepancies are recorded findings); with conf it is equality
     C33  RPlacement   : every planned placement went to a worker that was available in the recorded pre-state, and to the pinned one when that was available
          RSweepExact  : a sweep marks exactly the ready workers whose heartbeat is older than the timeout
          RHeartbeat   : after a heartbeat an unhealthy worker is ready again *)
EXTENDS CoordMC, Json, IOUtils, TLCExt
Rec == ndJsonDeserialize(IOEnv.TRACE)
VARIABLES l, rst, conf, c33, newerrs
tvars == <<vars, l, rst, conf, c33, newerrs>>
IsEv(n) == l <= Len(Rec) /\ Rec[l].ev = n /\ l' = l + 1
St0 == [workers |-> [w \in W |-> NoW], groups |-> [g \in G |-> [exists |-> FALSE, inc |-> 0, pl |-> [p \in Groups[g] |-> NoPl]]]]
TInit == Init /\ l = 1 /\ rst = St0 /\ conf = TRUE /\ c33 = TRUE /\ newerrs = {}
TReset == /\ IsEv("reset")
          /\ workers' = [w \in W |-> NoW]
          /\ groups' = [g \in G |-> [exists |-> FALSE, inc |-> 0, pl |-> [p \in Groups[g] |-> NoPl]]]
          /\ plans' = {} /\ nplans' = 0 /\ last' = [k |-> "none"]
          /\ rst' = St0 /\ conf' = TRUE /\ c33' = TRUE /\ newerrs' = {}
PlanById(id) == CHOOSE pl \in plans : pl.id = id
HasPlan(id) == \E pl \in plans : pl.id = id
RAvail(w) == rst.workers[w].reg /\ rst.workers[w].status = "ready" /\ rst.workers[w].running < MaxPipes
\* the model action corresponding to record r (FALSE when r's arguments make no sense for the model)
Act(r) ==
  CASE r.a = "register"   -> Register(r.w)
    [] r.a = "deregister" -> Deregister(r.w)
    [] r.a = "age"        -> Age(r.w)
    [] r.a = "draining"   -> SetDraining(r.w)
    [] r.a = "heartbeat"  -> Heartbeat(r.w, r.n)
    [] r.a = "sweep"      -> Sweep
    [] r.a = "plan_deploy"    -> PlanDeployWith(r.g, r.pin, r.res)
    [] r.a = "commit_deploy"  -> HasPlan(r.id) /\ CommitDeploy(PlanById(r.id), r.okmap)
    [] r.a = "plan_teardown"  -> PlanTeardown(r.g)
    [] r.a = "commit_teardown" -> HasPlan(r.id) /\ CommitTeardown(PlanById(r.id))
    [] r.a = "plan_migrate"   -> PlanMigrate(r.p, r.tgt)
    [] r.a = "commit_migrate" -> HasPlan(r.id) /\ CommitMigrate(PlanById(r.id), r.okflag)
TOp == /\ IsEv("op")
       /\ LET r == Rec[l] IN
          /\ IF r.ok /\ ENABLED Act(r) THEN Act(r) ELSE UNCHANGED vars
          /\ rst' = r.st
          /\ conf' = (conf /\ (r.ok = ENABLED Act(r)) /\ workers' = r.st.workers /\ groups' = r.st.groups)
          /\ newerrs' = newerrs \cup (ErrsS(r.st.workers, r.st.groups) \ ErrsS(workers', groups'))
          /\ c33' = (c33 /\
               CASE r.a = "plan_deploy" /\ r.ok ->
                      \A p \in DOMAIN r.res : /\ RAvail(r.res[p])
                                              /\ (r.pin[p] # "none" /\ RAvail(r.pin[p])) => r.res[p] = r.pin[p]
                 [] r.a = "plan_deploy" /\ ~r.ok -> ~(\E w \in W : RAvail(w))       \* refusing is right only when nobody is available
                 [] r.a = "sweep" ->
                      /\ ToSet(r.res) = { w \in W : rst.workers[w].reg /\ rst.workers[w].status = "ready" /\ ~rst.workers[w].fresh }
                      /\ \A w \in W : r.st.workers[w].status = (IF w \in ToSet(r.res) THEN "unhealthy" ELSE rst.workers[w].status)
                 [] r.a = "heartbeat" /\ r.ok ->
                      r.st.workers[r.w].status = (IF rst.workers[r.w].status = "unhealthy" THEN "ready" ELSE rst.workers[r.w].status)
                 [] OTHER -> TRUE)
TNext == TReset \/ TOp
RNoNewErrs == newerrs = {}
RC33 == c33
Conform == conf
Accepted == TLCGet("stats").diameter - 1 = Len(Rec)
AcceptedMsg == IF Accepted THEN TRUE
               ELSE PrintT(<<"REJECTED at line", TLCGet("stats").diameter, Rec[TLCGet("stats").diameter]>>) /\ FALSE
====
