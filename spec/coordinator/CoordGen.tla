---- MODULE CoordGen ----
(* behaviour generator: histories of coordinator calls (with the interleavings of plan / commit phases) *)
EXTENDS CoordMC, Json
VARIABLE hist
GInit == Init /\ hist = <<>>
R(a) == hist' = Append(hist, a)
GNext ==
  \/ \E w \in W : \/ (Register(w) /\ R([a |-> "register", w |-> w]))
                  \/ (Deregister(w) /\ R([a |-> "deregister", w |-> w]))
                  \/ (Age(w) /\ R([a |-> "age", w |-> w]))
                  \/ (SetDraining(w) /\ R([a |-> "draining", w |-> w]))
  \/ \E w \in W, n \in 0..2 : Heartbeat(w, n) /\ R([a |-> "heartbeat", w |-> w, n |-> n])
  \/ (Sweep /\ R([a |-> "sweep"]))
  \/ \E g \in G : \E pin \in [Groups[g] -> W \cup {"none"}], tasks \in [Groups[g] -> W] :
        /\ ~groups[g].exists /\ ~(\E pl \in plans : pl.kind = "deploy" /\ pl.g = g)
        /\ PlanDeployWith(g, pin, tasks) /\ R([a |-> "plan_deploy", g |-> g, pin |-> pin, id |-> nplans])
  \/ \E g \in G : PlanTeardown(g) /\ R([a |-> "plan_teardown", g |-> g, id |-> nplans])
  \/ \E p \in P, t \in W : PlanMigrate(p, t) /\ R([a |-> "plan_migrate", p |-> p, g |-> GroupOf(p), tgt |-> t, id |-> nplans])
  \/ \E pl \in plans : \/ (pl.kind = "deploy" /\ \E ok \in [Groups[pl.g] -> BOOLEAN] : CommitDeploy(pl, ok) /\ R([a |-> "commit_deploy", id |-> pl.id, ok |-> ok]))
                       \/ (CommitTeardown(pl) /\ R([a |-> "commit_teardown", id |-> pl.id]))
                       \/ \E ok \in BOOLEAN : (CommitMigrate(pl, ok) /\ R([a |-> "commit_migrate", id |-> pl.id, ok |-> ok]))
\* ---- state-coverage generator: sequential use only (one plan in flight), explored breadth-first with the history hidden
\* ---- by a VIEW, so TLC visits every reachable state once and prints ONE call history leading to it
\* transition coverage: every generated transition (also into an already visited state) prints the history that takes it
RT(a) == hist' = Append(hist, a) /\ PrintT(<<"CASE", ToJson([hist |-> Append(hist, a)])>>)
GSeqNext ==
  \/ (plans = {} /\ \E w \in W : \/ (~workers[w].reg /\ Register(w) /\ RT([a |-> "register", w |-> w]))
                                   \/ (workers[w].assigned = <<>> /\ Deregister(w) /\ RT([a |-> "deregister", w |-> w])))
  \/ (plans = {} /\ \E g \in G : \E tasks \in [Groups[g] -> W] :
         ~groups[g].exists /\ PlanDeployWith(g, tasks, tasks) /\ RT([a |-> "plan_deploy", g |-> g, pin |-> tasks, id |-> nplans]))
  \/ (plans = {} /\ \E g \in G : PlanTeardown(g) /\ RT([a |-> "plan_teardown", g |-> g, id |-> nplans]))
  \/ (plans = {} /\ \E p \in P, t \in W : groups[GroupOf(p)].pl[p].st = "running" /\ groups[GroupOf(p)].pl[p].w # t
         /\ PlanMigrate(p, t) /\ RT([a |-> "plan_migrate", p |-> p, g |-> GroupOf(p), tgt |-> t, id |-> nplans]))
  \/ \E pl \in plans : \/ (pl.kind = "deploy" /\ \E ok \in [Groups[pl.g] -> BOOLEAN] : CommitDeploy(pl, ok) /\ RT([a |-> "commit_deploy", id |-> pl.id, ok |-> ok]))
                       \/ (CommitTeardown(pl) /\ RT([a |-> "commit_teardown", id |-> pl.id]))
                       \/ \E ok \in BOOLEAN : (CommitMigrate(pl, ok) /\ RT([a |-> "commit_migrate", id |-> pl.id, ok |-> ok]))
\* health-only transition coverage (C33): registration, heartbeats with every reported load, ageing, draining, sweeps; the harness
\* runs these histories with a worker capacity of 2 pipelines, so a heartbeat reporting 2 is a SATURATED worker - which must not matter
GHealthNext ==
  \/ \E w \in W : \/ (~workers[w].reg /\ Register(w) /\ RT([a |-> "register", w |-> w]))
                  \/ (Deregister(w) /\ RT([a |-> "deregister", w |-> w]))
                  \/ (Age(w) /\ RT([a |-> "age", w |-> w]))
                  \/ (SetDraining(w) /\ RT([a |-> "draining", w |-> w]))
  \/ \E w \in W, n \in 0..2 : Heartbeat(w, n) /\ RT([a |-> "heartbeat", w |-> w, n |-> n])
  \/ (Sweep /\ RT([a |-> "sweep"]))
EmitAll == TRUE
StateView == <<workers, groups, plans>>
Emit == (Len(hist) = MaxLen) => PrintT(<<"CASE", ToJson([hist |-> hist])>>)
Stop == Len(hist) <= MaxLen
====
