CONSTANTS W = {"w1","w2"} Groups <- MCGroups Order <- MCOrder MaxPlans = 4 MaxPipes = 100
INIT Init
NEXT NoHbNext
INVARIANT Bookkeeping
CHECK_DEADLOCK FALSE
