---- MODULE InjectRouting ----
(* C34: an injected event goes to the pipeline of the FIRST route whose pattern matches its type (patterns: exact type or
   prefix followed by a star), to the group's first pipeline when no route matches; with key-hash partitioning equal keys reach the
   same replica whether injected singly or in a batch; with round-robin replica loads differ by at most one.
   TLC enumerates route tables and event sequences; Target is the reference; the harness injects each sequence singly
   (resolve_inject_target) and as one batch (inject_batch, observed at a mock worker). *)
EXTENDS Naturals, Sequences, FiniteSets, TLC, Json
CONSTANTS MaxRoutes
Types == { "Order", "OrderCancelled", "Pay", "Other" }
Patterns == { "Order*", "OrderCancelled", "Pay", "P*", "*" }
Pipes == << "p1", "p2" >>
\* prefix matching as an explicit table (pattern, type)
Matches(pat, ty) == \/ pat = ty
                    \/ (pat = "Order*" /\ ty \in {"Order", "OrderCancelled"})
                    \/ (pat = "P*" /\ ty = "Pay")
                    \/ pat = "*"
Routes == [pats : { <<a>> : a \in Patterns } \cup { <<a, b>> : a \in {"Pay", "OrderCancelled"}, b \in {"Order*", "P*"} }, to : {"p1", "p2"}]
RECURSIVE FirstMatch(_, _)
FirstMatch(rs, ty) == IF rs = <<>> THEN Pipes[1]
                      ELSE IF \E i \in 1..Len(Head(rs).pats) : Matches(Head(rs).pats[i], ty) THEN Head(rs).to
                      ELSE FirstMatch(Tail(rs), ty)
Keys == { "k1", "k2", "i1", "f1", "none" }       \* string keys, an int, a float with the same numeric value, missing
Events == [type : Types, key : Keys]
\* every route table is exercised with every event type and key (the harness injects them all, twice, singly and as one batch)
VARIABLES routes, strat
Init == /\ routes \in UNION { [1..n -> Routes] : n \in 0..MaxRoutes }
        /\ strat \in { "hash", "rr" }
Next == UNCHANGED <<routes, strat>>
Emit == PrintT(<<"CASE", ToJson([routes |-> routes, strat |-> strat, target |-> [t \in Types |-> FirstMatch(routes, t)]])>>)
====
