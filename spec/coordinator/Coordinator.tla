--------------------------- MODULE Coordinator ---------------------------
(* Coordinator bookkeeping at the granularity of the code's lock: every public plan_* / commit_* / register / heartbeat /
   health_sweep / deregister call is one atomic action; HTTP I/O happens between plan and commit, so other calls
   interleave there.  Transcribed from crates/varpulis-cluster/src/coordinator.rs and health.rs.
   The model is FAITHFUL: it does what the code does, including the recorded C32 findings (a commit applied to a
   state that changed since its plan).  `Errs` is the set of property-level discrepancies of a state; conformance
   checks compare the real coordinator's state and discrepancy set with the model's after every call. *)
EXTENDS Naturals, Sequences, FiniteSets, TLC, SequencesExt, FiniteSetsExt
CONSTANTS W,          \* worker ids
          Groups,     \* group name -> set of pipeline names (function); pipeline names are globally unique
          Order,      \* all pipeline names in spec order (a sequence): commit_deploy pushes assignments in this order
          MaxPlans, MaxPipes
G == DOMAIN Groups
P == UNION { Groups[g] : g \in G }
GroupOf(p) == CHOOSE g \in G : p \in Groups[g]

VARIABLES workers,   \* w |-> [reg, status, assigned (seq of names), running, fresh (heartbeat younger than the timeout)]
          groups,    \* g |-> [exists, pl : name |-> [w, st, epoch]]   st in {"none","running","failed"}
          plans,     \* in-flight plans (set of records)
          nplans,
          last       \* observable result of the last call (planner choice, sweep result)
vars == <<workers, groups, plans, nplans, last>>

NoPl == [w |-> "none", st |-> "none", epoch |-> 0]
NoW == [reg |-> FALSE, status |-> "ready", assigned |-> <<>>, running |-> 0, fresh |-> TRUE]
Init == /\ workers = [w \in W |-> NoW]
        /\ groups = [g \in G |-> [exists |-> FALSE, inc |-> 0, pl |-> [p \in Groups[g] |-> NoPl]]]
        /\ plans = {} /\ nplans = 0 /\ last = [k |-> "none"]

Avail(w) == workers[w].reg /\ workers[w].status = "ready" /\ workers[w].running < MaxPipes      \* WorkerNode::is_available
Rm(seq, x) == SelectSeq(seq, LAMBDA y : y # x)
Dec(n) == IF n = 0 THEN 0 ELSE n - 1                                                            \* saturating_sub(1)

\* register_worker: inserts a FRESH node (a re-registration forgets assigned pipelines and the running count)
Register(w) == /\ workers' = [workers EXCEPT ![w] = [reg |-> TRUE, status |-> "ready", assigned |-> <<>>, running |-> 0, fresh |-> TRUE]]
               /\ last' = [k |-> "register"] /\ UNCHANGED <<groups, plans, nplans>>
Deregister(w) == /\ workers[w].reg
                 /\ workers' = [workers EXCEPT ![w] = NoW]
                 /\ last' = [k |-> "deregister"] /\ UNCHANGED <<groups, plans, nplans>>
\* heartbeat: the worker-reported running count overwrites the coordinator's; an unhealthy worker becomes ready
Heartbeat(w, n) == /\ workers[w].reg
                   /\ workers' = [workers EXCEPT ![w].running = n, ![w].fresh = TRUE,
                                                 ![w].status = IF @ = "unhealthy" THEN "ready" ELSE @]
                   /\ last' = [k |-> "heartbeat"] /\ UNCHANGED <<groups, plans, nplans>>
\* time passes: the worker's last heartbeat becomes older than the timeout
Age(w) == /\ workers[w].reg /\ workers[w].fresh
          /\ workers' = [workers EXCEPT ![w].fresh = FALSE]
          /\ last' = [k |-> "age"] /\ UNCHANGED <<groups, plans, nplans>>
SetDraining(w) == /\ workers[w].reg /\ workers[w].status = "ready"
                  /\ workers' = [workers EXCEPT ![w].status = "draining"]
                  /\ last' = [k |-> "draining"] /\ UNCHANGED <<groups, plans, nplans>>
\* health_sweep: exactly the ready workers whose heartbeat is older than the timeout become unhealthy
SweepSet == { w \in W : workers[w].reg /\ workers[w].status = "ready" /\ ~workers[w].fresh }
Sweep == /\ workers' = [w \in W |-> IF w \in SweepSet THEN [workers[w] EXCEPT !.status = "unhealthy"] ELSE workers[w]]
         /\ last' = [k |-> "sweep", marked |-> SweepSet] /\ UNCHANGED <<groups, plans, nplans>>

\* ---- deploy: plan picks a worker per pipeline (pinned worker when available, else any available one) ----
PlanDeployWith(g, pin, tasks) ==      \* pin : pipeline -> worker or "none" ; tasks : pipeline -> chosen worker
  /\ nplans < MaxPlans
  /\ \E w \in W : Avail(w)                                                      \* else NoWorkersAvailable
  /\ \A p \in Groups[g] : /\ Avail(tasks[p])
                          /\ (pin[p] # "none" /\ Avail(pin[p])) => tasks[p] = pin[p]
  /\ plans' = plans \cup {[kind |-> "deploy", g |-> g, tasks |-> tasks, id |-> nplans]}
  /\ nplans' = nplans + 1 /\ last' = [k |-> "plan_deploy", tasks |-> tasks, pin |-> pin] /\ UNCHANGED <<workers, groups>>
CommitDeploy(pl, ok) ==   \* ok : pipeline -> BOOLEAN (per-pipeline outcome reported by the workers)
  /\ pl \in plans /\ pl.kind = "deploy" /\ plans' = plans \ {pl}
  \* every creation gets a fresh group id; inc counts the creations of this name (the group a stale plan refers to is identified by it)
  /\ groups' = [groups EXCEPT ![pl.g] = [exists |-> TRUE, inc |-> @.inc + 1,
                 pl |-> [p \in Groups[pl.g] |-> [w |-> pl.tasks[p], st |-> IF ok[p] THEN "running" ELSE "failed", epoch |-> 0]]]]
  /\ workers' = [w \in W |->
        LET mine == SelectSeq(Order, LAMBDA p : p \in Groups[pl.g] /\ ok[p] /\ pl.tasks[p] = w) IN
        IF workers[w].reg THEN [workers[w] EXCEPT !.assigned = @ \o mine, !.running = @ + Len(mine)] ELSE workers[w]]
  /\ last' = [k |-> "commit_deploy"] /\ UNCHANGED nplans

\* ---- teardown: the plan snapshots the placements that have a pipeline id (i.e. were deployed successfully) ----
PlanTeardown(g) == /\ groups[g].exists /\ nplans < MaxPlans
                   /\ plans' = plans \cup {[kind |-> "teardown", g |-> g, snap |-> groups[g].pl, inc |-> groups[g].inc, id |-> nplans]}
                   /\ nplans' = nplans + 1 /\ last' = [k |-> "plan_teardown"] /\ UNCHANGED <<workers, groups>>
CommitTeardown(pl) ==
  /\ pl \in plans /\ pl.kind = "teardown" /\ plans' = plans \ {pl}
  /\ LET tasks == {p \in Groups[pl.g] : pl.snap[p].st = "running"} IN      \* pipeline_id non-empty <=> deployed ok
     workers' = [w \in W |->
        LET mine == {p \in tasks : pl.snap[p].w = w} IN
        IF workers[w].reg /\ mine # {}
          THEN [workers[w] EXCEPT !.assigned = SelectSeq(@, LAMBDA x : x \notin mine),
                                  !.running = IF @ >= Cardinality(mine) THEN @ - Cardinality(mine) ELSE 0]
          ELSE workers[w]]
  \* the group is removed by ITS id: a plan made for an earlier creation of the name leaves a later one alone (the worker-side
  \* updates above go by pipeline name and are applied regardless)
  /\ groups' = IF groups[pl.g].inc = pl.inc THEN [groups EXCEPT ![pl.g] = [exists |-> FALSE, inc |-> @.inc, pl |-> [p \in Groups[pl.g] |-> NoPl]]] ELSE groups
  /\ last' = [k |-> "commit_teardown"] /\ UNCHANGED nplans

\* ---- migration of one pipeline to a target worker ----
PlanMigrate(p, t) == LET g == GroupOf(p) IN
                     /\ groups[g].exists /\ groups[g].pl[p].st # "none" /\ workers[t].reg /\ nplans < MaxPlans
                     /\ plans' = plans \cup {[kind |-> "migrate", g |-> g, p |-> p, src |-> groups[g].pl[p].w, tgt |-> t, inc |-> groups[g].inc, id |-> nplans]}
                     /\ nplans' = nplans + 1 /\ last' = [k |-> "plan_migrate"] /\ UNCHANGED <<workers, groups>>
CommitMigrate(pl, ok) ==
  /\ pl \in plans /\ pl.kind = "migrate" /\ plans' = plans \ {pl}
  /\ IF ~ok THEN UNCHANGED <<workers, groups>>
     ELSE /\ groups' = IF groups[pl.g].exists /\ groups[pl.g].inc = pl.inc
                         THEN [groups EXCEPT ![pl.g].pl[pl.p] = [w |-> pl.tgt, st |-> "running", epoch |-> @.epoch + 1]]
                         ELSE groups
          /\ workers' = [w \in W |->
               IF ~workers[w].reg THEN workers[w]
               ELSE IF w = pl.tgt /\ w = pl.src THEN [workers[w] EXCEPT !.assigned = Rm(Append(@, pl.p), pl.p), !.running = Dec(@ + 1)]
               ELSE IF w = pl.tgt THEN [workers[w] EXCEPT !.assigned = Append(@, pl.p), !.running = @ + 1]
               ELSE IF w = pl.src THEN [workers[w] EXCEPT !.assigned = Rm(@, pl.p), !.running = Dec(@)]
               ELSE workers[w]]
  /\ last' = [k |-> "commit_migrate"] /\ UNCHANGED nplans

Next == \/ \E w \in W : Register(w) \/ Deregister(w) \/ Age(w) \/ SetDraining(w)
        \/ \E w \in W, n \in 0..2 : Heartbeat(w, n)
        \/ Sweep
        \/ \E g \in G : \E pin \in [Groups[g] -> W \cup {"none"}], tasks \in [Groups[g] -> W] : ~groups[g].exists /\ PlanDeployWith(g, pin, tasks)
        \/ \E g \in G : PlanTeardown(g)
        \/ \E p \in P, t \in W : PlanMigrate(p, t)
        \/ \E pl \in plans : \/ (pl.kind = "deploy" /\ \E ok \in [Groups[pl.g] -> BOOLEAN] : CommitDeploy(pl, ok))
                             \/ CommitTeardown(pl)
                             \/ \E ok \in BOOLEAN : CommitMigrate(pl, ok)
Spec == Init /\ [][Next]_vars

\* ============================== properties ==============================
\* C32: discrepancies between worker bookkeeping and running placements, as a set (so that two states can be compared)
RunningOnS(gs, w) == { p \in P : gs[GroupOf(p)].exists /\ gs[GroupOf(p)].pl[p].st = "running" /\ gs[GroupOf(p)].pl[p].w = w }
ErrsS(ws, gs) ==
     { <<"placement-on-unregistered", p>> : p \in { p \in P : gs[GroupOf(p)].exists /\ gs[GroupOf(p)].pl[p].st = "running" /\ ~ws[gs[GroupOf(p)].pl[p].w].reg } }
  \cup { <<"assigned-mismatch", w>> : w \in { w \in W : ws[w].reg /\ (ToSet(ws[w].assigned) # RunningOnS(gs, w) \/ Len(ws[w].assigned) # Cardinality(RunningOnS(gs, w))) } }
  \cup { <<"running-count", w>> : w \in { w \in W : ws[w].reg /\ ws[w].running # Cardinality(RunningOnS(gs, w)) } }
Errs == ErrsS(workers, groups)
Bookkeeping == Errs = {}
\* C33 as action-level facts recorded in `last`
PlacementOk == last.k = "plan_deploy" => \A p \in DOMAIN last.tasks : Avail(last.tasks[p])   \* evaluated in the pre-state by the trace spec
=========================================================================
