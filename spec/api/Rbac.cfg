INIT Init
NEXT Next
INVARIANT Monotone
INVARIANT Emit
CHECK_DEADLOCK FALSE
