---- MODULE Rbac ----
(* C29: every endpoint enforces its required role; a rejected request changes nothing.
   Endpoint table transcribed from the documented role semantics (reads = viewer; register / heartbeat / deploy / inject / drain /
   rebalance / migrate / connector and model writes = operator; deletes = admin) for the cluster API, the Raft RPC routes
   (admin key when one is configured) and the tenant admin API (admin key).  Credentials: none, a wrong key, NEAR-MISS keys
   (a configured key with two characters transposed / two compensating bit flips), viewer, operator, admin.
   Reference: served iff the configuration grants the credential a role >= the endpoint's.  The matrix is finite: TLC
   enumerates every cell. *)
EXTENDS Integers, Sequences, TLC, Json
Roles == [viewer |-> 0, operator |-> 1, admin |-> 2]
Endpoints == {
  [id |-> "workers_list",     m |-> "GET",    req |-> "viewer"],   [id |-> "worker_get",      m |-> "GET",    req |-> "viewer"],
  [id |-> "worker_register",  m |-> "POST",   req |-> "operator"], [id |-> "worker_heartbeat", m |-> "POST",  req |-> "operator"],
  [id |-> "worker_delete",    m |-> "DELETE", req |-> "admin"],    [id |-> "worker_drain",    m |-> "POST",   req |-> "operator"],
  [id |-> "groups_list",      m |-> "GET",    req |-> "viewer"],   [id |-> "group_get",       m |-> "GET",    req |-> "viewer"],
  [id |-> "group_deploy",     m |-> "POST",   req |-> "operator"], [id |-> "group_delete",    m |-> "DELETE", req |-> "admin"],
  [id |-> "group_inject",     m |-> "POST",   req |-> "operator"], [id |-> "group_inject_batch", m |-> "POST", req |-> "operator"],
  [id |-> "topology",         m |-> "GET",    req |-> "viewer"],   [id |-> "validate",        m |-> "POST",   req |-> "viewer"],
  [id |-> "rebalance",        m |-> "POST",   req |-> "operator"], [id |-> "migrations_list", m |-> "GET",    req |-> "viewer"],
  [id |-> "pipeline_migrate", m |-> "POST",   req |-> "operator"], [id |-> "connectors_list", m |-> "GET",    req |-> "viewer"],
  [id |-> "connector_create", m |-> "POST",   req |-> "operator"], [id |-> "connector_update", m |-> "PUT",   req |-> "operator"],
  [id |-> "connector_delete", m |-> "DELETE", req |-> "admin"],    [id |-> "metrics",         m |-> "GET",    req |-> "viewer"],
  [id |-> "scaling",          m |-> "GET",    req |-> "viewer"],   [id |-> "summary",         m |-> "GET",    req |-> "viewer"],
  [id |-> "models_list",      m |-> "GET",    req |-> "viewer"],   [id |-> "model_delete",    m |-> "DELETE", req |-> "admin"] }
Creds == { "none", "wrong", "near_viewer", "near_operator", "near_admin", "flip_admin", "viewer", "operator", "admin" }
Configs == { "multi", "single_admin", "disabled" }
\* the role a configuration grants a credential (-1 = none)
Granted(cfg, c) ==
  CASE cfg = "disabled" -> 2
    [] cfg = "multi" -> (CASE c = "viewer" -> 0 [] c = "operator" -> 1 [] c = "admin" -> 2 [] OTHER -> -1)
    [] cfg = "single_admin" -> (IF c = "admin" THEN 2 ELSE -1)
Served(cfg, c, e) == Granted(cfg, c) >= Roles[e.req]
VARIABLES cfg, cred, ep
Init == cfg \in Configs /\ cred \in Creds /\ ep \in Endpoints
Next == UNCHANGED <<cfg, cred, ep>>
\* sanity of the table: a role that may do something may do everything a lower role may
Monotone == \A e2 \in Endpoints : (Served(cfg, cred, ep) /\ Roles[e2.req] <= Roles[ep.req]) => Served(cfg, cred, e2)
Emit == PrintT(<<"CASE", ToJson([cfg |-> cfg, cred |-> cred, ep |-> ep.id, m |-> ep.m, req |-> ep.req, served |-> Served(cfg, cred, ep)])>>)
====
