---- MODULE TenantApi ----
(* C28: a request authenticated with one tenant's API key can never list, read, inject into, reload, checkpoint, restore
   or delete a pipeline of another tenant, and leaves the other tenants' pipelines, outputs and usage unchanged.
   Three tenants, one pipeline each; two of the API keys differ ONLY in letter case.  A request = (endpoint, credential,
   target pipeline).  Reference: the credential selects a tenant (or none -> unauthorised); the request acts on the target
   only if that tenant owns it, otherwise it answers not-found; nothing else changes. *)
EXTENDS Naturals, Sequences, FiniteSets, TLC, Json
CONSTANT MaxReqs
Tenants == {1, 2, 3}
Creds == {"k1", "k2", "k3", "wrong", "none"}        \* k1 and k2 are rendered as keys differing only in case
Targets == {1, 2, 3, 9}                              \* pipeline of tenant i; 9 = an id nobody owns
Endpoints == {"list", "get", "delete", "inject", "inject_batch", "checkpoint", "restore", "metrics", "reload", "usage"}
TenantOf(c) == CASE c = "k1" -> 1 [] c = "k2" -> 2 [] c = "k3" -> 3 [] OTHER -> 0
NeedsTarget(e) == e \notin {"list", "usage"}
VARIABLES st,      \* tenant -> [exists (its pipeline), injected, version]
          reqs, outcomes
Init == st = [t \in Tenants |-> [exists |-> TRUE, injected |-> 0, version |-> 0]] /\ reqs = <<>> /\ outcomes = <<>>
Outcome(e, c, tg) ==
  LET t == TenantOf(c) IN
  IF t = 0 THEN "unauthorised"
  ELSE IF ~NeedsTarget(e) THEN "ok"
  ELSE IF tg = t /\ st[t].exists THEN "ok" ELSE "notfound"
Effect(e, c, tg) ==
  LET t == TenantOf(c) IN
  IF Outcome(e, c, tg) # "ok" \/ ~NeedsTarget(e) THEN st
  ELSE CASE e = "delete" -> [st EXCEPT ![t].exists = FALSE]
         [] e = "inject" -> [st EXCEPT ![t].injected = @ + 1]
         [] e = "inject_batch" -> [st EXCEPT ![t].injected = @ + 2]
         [] e = "reload" -> [st EXCEPT ![t].version = @ + 1]
         [] OTHER -> st
Next == /\ Len(reqs) < MaxReqs
        /\ \E e \in Endpoints, c \in Creds, tg \in Targets :
             /\ (NeedsTarget(e) \/ tg = 9)
             /\ reqs' = Append(reqs, [e |-> e, c |-> c, tg |-> tg])
             /\ outcomes' = Append(outcomes, Outcome(e, c, tg))
             /\ st' = Effect(e, c, tg)
\* the reference itself keeps tenants apart: a step changes at most the authenticated tenant's entry
Isolation == [][\A t \in Tenants : st'[t] # st[t] => TenantOf(reqs'[Len(reqs')].c) = t]_<<st, reqs, outcomes>>
Emit == (Len(reqs) = MaxReqs) => PrintT(<<"CASE", ToJson([reqs |-> reqs, outcomes |-> outcomes, final |-> st])>>)
Spec == Init /\ [][Next]_<<st, reqs, outcomes>>
====
