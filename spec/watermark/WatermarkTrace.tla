---- MODULE WatermarkTrace ----
(* Trace validation of the real PerSourceWatermarkTracker and of the engine's late-data gate.
   {"ev":"reset"}
   {"ev":"op","op":"obs"|"adv","s":src,"t":ts,"wm":{src: wm or -1000},"eff":eff or -1000,"dropped":BOOLEAN (engine-level: the event was not processed)} *)
EXTENDS WatermarkMC, IOUtils, TLCExt
Rec == ndJsonDeserialize(IOEnv.TRACE)
VARIABLES l, rwm, reff, rprev, rprevEff, conf, gate
tvars == <<vars, l, rwm, reff, rprev, rprevEff, conf, gate>>
IsEv(n) == l <= Len(Rec) /\ Rec[l].ev = n /\ l' = l + 1
W0 == [s \in Srcs |-> None]
TInit == Init /\ l = 1 /\ rwm = W0 /\ reff = None /\ rprev = W0 /\ rprevEff = None /\ conf = TRUE /\ gate = TRUE
TReset == /\ IsEv("reset")
          /\ wm' = W0 /\ maxTs' = W0 /\ eff' = None /\ hist' = <<>> /\ prevWm' = W0
          /\ rwm' = W0 /\ reff' = None /\ rprev' = W0 /\ rprevEff' = None /\ conf' = TRUE /\ gate' = TRUE
TOp == /\ IsEv("op")
       /\ LET r == Rec[l] IN
          /\ IF r.op = "obs" THEN (IF "dropped" \in DOMAIN r /\ r.dropped THEN UNCHANGED vars ELSE Observe(r.s, r.t)) ELSE Advance(r.s, r.t)
          /\ rprev' = rwm /\ rprevEff' = reff
          /\ rwm' = [s \in Srcs |-> r.wm[s]] /\ reff' = r.eff
          /\ conf' = (conf /\ wm' = [s \in Srcs |-> r.wm[s]] /\ eff' = r.eff)
          \* late gate (engine level): an event may be dropped only if it is below the recorded effective watermark by more than the lateness
          /\ gate' = (gate /\ (("dropped" \in DOMAIN r /\ r.dropped) => (reff # None /\ r.t < reff - Lateness)))
TNext == TReset \/ TOp
RMonotone == PMonotone(rprev, rwm)
REffIsMin == (reff = None /\ Eff(rwm) = None) \/ PEffIsMin(rwm, reff) \/ (Eff(rwm) = None /\ reff = rprevEff)
RGate == gate
Conform == conf
Accepted == TLCGet("stats").diameter - 1 = Len(Rec)
AcceptedMsg == IF Accepted THEN TRUE
               ELSE PrintT(<<"REJECTED at line", TLCGet("stats").diameter, Rec[TLCGet("stats").diameter]>>) /\ FALSE
====
