---- MODULE WatermarkMC ----
EXTENDS Watermark, Json
OooMC == [s \in Srcs |-> IF s = "a" THEN 0 ELSE IF s = "b" THEN 1 ELSE 2]
Emit == (Len(hist) = MaxLen) => PrintT(<<"CASE", ToJson([hist |-> hist])>>)
\* history hidden: the state graph of the tracker itself (quick exhaustive run)
StateView == <<wm, maxTs, eff, prevWm>>
====
