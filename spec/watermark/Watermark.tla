----------------------------- MODULE Watermark -----------------------------
(* PerSourceWatermarkTracker: observe_event / advance_source_watermark / effective watermark,
   plus the engine's late-data gate. *)
EXTENDS Integers, Sequences, FiniteSets, TLC
CONSTANTS Srcs, Ooo, MaxTs, MaxLen, Lateness
None == -1000
VARIABLES wm, maxTs, eff, hist, prevWm
vars == <<wm, maxTs, eff, hist, prevWm>>
Init == /\ wm = [s \in Srcs |-> None] /\ maxTs = [s \in Srcs |-> None] /\ eff = None
        /\ hist = <<>> /\ prevWm = [s \in Srcs |-> None]
MinSet(S) == CHOOSE x \in S : \A y \in S : x <= y
Eff(w) == LET has == { w[s] : s \in { x \in Srcs : w[x] # None } } IN IF has = {} THEN None ELSE MinSet(has)

\* the engine's gate is evaluated BEFORE the tracker observes the event
Late(t) == eff # None /\ t < eff /\ ~(t >= eff - Lateness)

Observe(s, t) ==
  LET upd == maxTs[s] = None \/ t > maxTs[s]
      mt  == IF upd THEN t ELSE maxTs[s]
      nw  == IF upd THEN (IF wm[s] = None \/ mt - Ooo[s] > wm[s] THEN mt - Ooo[s] ELSE wm[s]) ELSE wm[s]
      w2  == [wm EXCEPT ![s] = nw]
      e2  == Eff(w2)
  IN /\ prevWm' = wm
     /\ maxTs' = [maxTs EXCEPT ![s] = mt] /\ wm' = w2
     /\ eff' = IF e2 = None THEN eff ELSE e2
     /\ hist' = Append(hist, [op |-> "obs", s |-> s, t |-> t, late |-> Late(t), wm |-> w2, eff |-> eff'])
Advance(s, w) ==
  LET nw == IF wm[s] = None \/ w > wm[s] THEN w ELSE wm[s]
      w2 == [wm EXCEPT ![s] = nw]
      e2 == Eff(w2)
  IN /\ prevWm' = wm /\ wm' = w2 /\ UNCHANGED maxTs
     /\ eff' = IF e2 = None THEN eff ELSE e2
     /\ hist' = Append(hist, [op |-> "adv", s |-> s, t |-> w, late |-> FALSE, wm |-> w2, eff |-> eff'])
Next == /\ Len(hist) < MaxLen
        /\ \E s \in Srcs, t \in 0..MaxTs : Observe(s, t) \/ Advance(s, t)

\* ---- C24 ----
Monotone == \A s \in Srcs : prevWm[s] = None \/ wm[s] >= prevWm[s]
EffIsMin == eff = Eff(wm)
LateOnlyIfBelow == \A i \in 1..Len(hist) : hist[i].late => (i > 1 /\ hist[i-1].eff # None /\ hist[i].t < hist[i-1].eff - Lateness)
Spec == Init /\ [][Next]_vars
\* the same properties over an arbitrary observation (recorded per-source watermarks before / after a call)
PMonotone(before, after) == \A s \in Srcs : before[s] = None \/ after[s] >= before[s]
PEffIsMin(after, e) == e = Eff(after)
=============================================================================
