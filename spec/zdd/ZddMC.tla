---- MODULE ZddMC ----
(* exhaustive comparison of the transcribed algorithms with the reference on every pair of families *)
EXTENDS Zdd
VARIABLES a, b
PInit == a \in Families /\ b \in Families /\ MInit
PNext == UNCHANGED <<a, b, regs, live, hist>>
MMInit == a = {} /\ b = {} /\ MInit
MMNext == MNext /\ UNCHANGED <<a, b>>
DiffOk == ADiff(a, b) = RDiff(a, b)
UnionOk == AUnion(a, b) = RUnion(a, b)
InterOk == AInter(a, b) = RInter(a, b)
OptOk == \A v \in Vars : AOpt(a, v) = ROpt(a, v)
====
