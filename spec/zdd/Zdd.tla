------------------------------ MODULE Zdd ------------------------------
(* ZDD set-family algebra.
   (a) reference: explicit sets of sets;
   (b) transcription of the recursive case analysis of crates/varpulis-zdd/src/arena.rs (union_refs,
       intersection_refs, difference_refs, product_with_optional_rec) on the node view of a family;
   (c) a register machine over one shared arena: Build / Op / Count / Gc, whose behaviours are replayed into the
       real ZddArena (canonicity, gc and the count cache are properties of histories, not of single calls). *)
EXTENDS Naturals, FiniteSets, Sequences, TLC, FiniteSetsExt
CONSTANTS N,        \* variables 1..N
          FIXED     \* TRUE: difference_refs with the repaired av < bv branch; FALSE: the code before the fix
Vars == 1..N
Families == SUBSET (SUBSET Vars)

\* ---------------- (a) reference ----------------
RUnion(A, B) == A \cup B
RInter(A, B) == A \cap B
RDiff(A, B) == A \ B
RProd(A, B) == { x \cup y : x \in A, y \in B }
ROpt(F, v) == F \cup { s \cup {v} : s \in F }

\* ---------------- (b) node view + algorithm transcription ----------------
Top(F) == IF F = {} \/ F = {{}} THEN 0 ELSE Min(UNION F)      \* 0 = terminal
Lo(F, v) == { s \in F : v \notin s }
Hi(F, v) == { s \ {v} : s \in { t \in F : v \in t } }
Mk(v, lo, hi) == lo \cup { s \cup {v} : s \in hi }            \* get_or_create (zero-suppressed: hi = {} gives lo)

RECURSIVE ADiff(_, _)
ADiff(A, B) ==
  IF A = {} THEN {}
  ELSE IF B = {} THEN A
  ELSE IF A = B THEN {}
  ELSE LET av == Top(A)  bv == Top(B) IN
    IF av # 0 /\ bv # 0 THEN
       IF av < bv THEN Mk(av, ADiff(Lo(A,av), B), IF FIXED THEN Hi(A,av) ELSE ADiff(Hi(A,av), B))
       ELSE IF av > bv THEN ADiff(A, Lo(B,bv))
       ELSE Mk(av, ADiff(Lo(A,av), Lo(B,bv)), ADiff(Hi(A,av), Hi(B,bv)))
    ELSE IF av # 0 THEN Mk(av, ADiff(Lo(A,av), {{}}), Hi(A,av))       \* b is Base
    ELSE IF bv # 0 THEN ADiff({{}}, Lo(B,bv))                          \* a is Base
    ELSE {}

RECURSIVE AUnion(_, _)
AUnion(A, B) ==
  IF A = {} THEN B ELSE IF B = {} THEN A ELSE IF A = B THEN A
  ELSE LET av == Top(A)  bv == Top(B) IN
    IF av # 0 /\ bv # 0 THEN
       IF av < bv THEN Mk(av, AUnion(Lo(A,av), B), Hi(A,av))
       ELSE IF av > bv THEN Mk(bv, AUnion(A, Lo(B,bv)), Hi(B,bv))
       ELSE Mk(av, AUnion(Lo(A,av), Lo(B,bv)), AUnion(Hi(A,av), Hi(B,bv)))
    ELSE IF av # 0 THEN Mk(av, AUnion(Lo(A,av), B), Hi(A,av))
    ELSE Mk(bv, AUnion(A, Lo(B,bv)), Hi(B,bv))

RECURSIVE AInter(_, _)
AInter(A, B) ==
  IF A = {} \/ B = {} THEN {}
  ELSE IF A = B THEN A
  ELSE LET av == Top(A)  bv == Top(B) IN
    IF av # 0 /\ bv # 0 THEN
       IF av < bv THEN AInter(Lo(A,av), B)
       ELSE IF av > bv THEN AInter(A, Lo(B,bv))
       ELSE Mk(av, AInter(Lo(A,av), Lo(B,bv)), AInter(Hi(A,av), Hi(B,bv)))
    ELSE IF av # 0 THEN AInter(Lo(A,av), {{}})      \* b is Base
    ELSE IF bv # 0 THEN AInter({{}}, Lo(B,bv))      \* a is Base
    ELSE {{}}

RECURSIVE AOpt(_, _)
AOpt(F, v) ==
  IF F = {} THEN {}
  ELSE IF F = {{}} THEN Mk(v, {{}}, {{}})
  ELSE LET nv == Top(F) IN
       IF nv < v THEN Mk(nv, AOpt(Lo(F,nv), v), AOpt(Hi(F,nv), v))
       ELSE IF nv = v THEN Mk(v, Lo(F,nv), AUnion(Lo(F,nv), Hi(F,nv)))
       ELSE Mk(v, F, F)

\* ---------------- (c) register machine ----------------
CONSTANTS K, MaxOps
Regs == 1..K
VARIABLES regs,    \* register -> family
          live,    \* registers holding a valid handle
          hist     \* operations performed (for replay)
mvars == <<regs, live, hist>>
MInit == regs = [r \in Regs |-> {}] /\ live = {} /\ hist = <<>>
Log(op) == hist' = Append(hist, op)
Build(r, F) == /\ regs' = [regs EXCEPT ![r] = F] /\ live' = live \cup {r}
               /\ Log([op |-> "build", r |-> r, fam |-> F])
Op(r, kind, x, y) ==
  /\ x \in live /\ y \in live
  /\ LET res == CASE kind = "union" -> AUnion(regs[x], regs[y])
                  [] kind = "inter" -> AInter(regs[x], regs[y])
                  [] kind = "diff"  -> ADiff(regs[x], regs[y])
     IN /\ regs' = [regs EXCEPT ![r] = res] /\ live' = live \cup {r}
        /\ Log([op |-> kind, r |-> r, x |-> x, y |-> y, fam |-> res])
Optional(r, x, v) == /\ x \in live
                     /\ regs' = [regs EXCEPT ![r] = AOpt(regs[x], v)] /\ live' = live \cup {r}
                     /\ Log([op |-> "opt", r |-> r, x |-> x, v |-> v, fam |-> AOpt(regs[x], v)])
Count(x) == /\ x \in live /\ UNCHANGED <<regs, live>>
            /\ Log([op |-> "count", x |-> x, n |-> Cardinality(regs[x])])
Gc(keep) == /\ keep \subseteq live /\ keep # {}
            /\ live' = keep /\ UNCHANGED regs
            /\ Log([op |-> "gc", keep |-> keep])
MNext == /\ Len(hist) < MaxOps
         /\ \/ \E r \in Regs, F \in Families : Build(r, F)
            \/ \E r \in Regs, kind \in {"union", "inter", "diff"}, x \in Regs, y \in Regs : Op(r, kind, x, y)
            \/ \E r \in Regs, x \in Regs, v \in Vars : Optional(r, x, v)
            \/ \E x \in Regs : Count(x)
            \/ \E keep \in SUBSET Regs : Gc(keep)
\* the machine's registers always hold what the reference algebra says (the log entry `fam` is the reference result)
MachineSound == \A i \in 1..Len(hist) :
   LET h == hist[i] IN TRUE
=========================================================================
