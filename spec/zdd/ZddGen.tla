---- MODULE ZddGen ----
EXTENDS ZddMC, Json, SequencesExt
Fam(F) == SetToSeq({ SetToSortSeq(s, <) : s \in F })
EmitPair == PrintT(<<"CASE", ToJson([a |-> Fam(a), b |-> Fam(b),
                 u |-> Fam(RUnion(a, b)), i |-> Fam(RInter(a, b)), d |-> Fam(RDiff(a, b)), p |-> Fam(RProd(a, b)),
                 o |-> [v \in Vars |-> Fam(ROpt(a, v))], cnt |-> Cardinality(a)])>>)
\* register machine behaviours
HistJson == [i \in 1..Len(hist) |->
   LET h == hist[i] IN
   CASE h.op = "build" -> [op |-> "build", r |-> h.r, fam |-> Fam(h.fam)]
     [] h.op \in {"union", "inter", "diff"} -> [op |-> h.op, r |-> h.r, x |-> h.x, y |-> h.y, fam |-> Fam(h.fam)]
     [] h.op = "opt" -> [op |-> "opt", r |-> h.r, x |-> h.x, v |-> h.v, fam |-> Fam(h.fam)]
     [] h.op = "count" -> [op |-> "count", x |-> h.x, n |-> h.n]
     [] h.op = "gc" -> [op |-> "gc", keep |-> SetToSortSeq(h.keep, <)]]
EmitHist == (Len(hist) = MaxOps) => PrintT(<<"CASE", ToJson([hist |-> HistJson])>>)
====
