----------------------------- MODULE Dispatch -----------------------------
(* The engine's four dispatch loops (per-event async, async batch, sync batch) as one queue machine.
   Transcribed from crates/varpulis-runtime/src/engine/mod.rs: process_inner, process_batch, process_batch_sync.
   A program is a sequence of streams (registration order = declaration order).  A stream:
     [name, srcs (event types / stream names it is routed from), where, win, proc, emit]
       where : keeps only events with x > 0
       win   : 0 none | n = count window of n events followed by an aggregate (x: last(x))
       proc  : .process(f()) where f emits two events (x, x + 10)
       emit  : .emit(...) present
   FAITHFUL details (each a recorded C16 finding): in both batch paths the events derived from the batch are queued behind
   the whole batch; the sync path does not rename the output of a stream nobody consumes, so it re-enters the router
   under its source type. *)
EXTENDS Naturals, Sequences, FiniteSets, TLC, SequencesExt, Randomization
CONSTANTS MaxDepth, MaxLen, Pool, MaxStreams,
          TwoPhase,          \* also generate cases where part of the program is loaded after some traffic
          NProgs, NStreams   \* 0 = all programs / event sequences, n = a random subset of n (seeded by TLC -seed)

Events == [type : {"A", "B"}, x : {0, 1}]

Routes(prog, ty) == SelectSeq(prog, LAMBDA s : ty \in s.srcs)         \* registration order
HasRoute(prog, ty) == \E i \in 1..Len(prog) : ty \in prog[i].srcs
Idx(prog, nm) == CHOOSE i \in 1..Len(prog) : prog[i].name = nm

\* one stream processes one event.  Returns [emitted (to the output channel), outputs (queued for dependants), buf]
Proc(s, e, buf, skipRename) ==
  IF s.where /\ ~(e.x > 0) THEN [emitted |-> <<>>, outputs |-> <<>>, buf |-> buf]
  ELSE LET afterWin ==
             IF s.win = 0 THEN [cur |-> <<e>>, buf |-> buf]
             ELSE IF Len(buf) + 1 >= s.win
                    THEN [cur |-> <<[type |-> "Agg", x |-> e.x]>>, buf |-> <<>>]
                    ELSE [cur |-> <<>>, buf |-> Append(buf, e)]
           cur2 == IF s.proc /\ afterWin.cur # <<>>
                     THEN <<[type |-> "Lo", x |-> afterWin.cur[1].x], [type |-> "Hi", x |-> afterWin.cur[1].x + 10]>>
                     ELSE afterWin.cur
           named == [k \in 1..Len(cur2) |-> [type |-> s.name, x |-> cur2[k].x]]
       IN IF cur2 = <<>> THEN [emitted |-> <<>>, outputs |-> <<>>, buf |-> afterWin.buf]
          ELSE IF s.emit THEN [emitted |-> named, outputs |-> named, buf |-> afterWin.buf]
          ELSE LET outs == IF skipRename THEN [k \in 1..Len(cur2) |-> [type |-> cur2[k].type, x |-> cur2[k].x]] ELSE named
               \* a .process() stream without .emit() forwards its outputs to the output channel
               IN [emitted |-> IF s.proc THEN outs ELSE <<>>, outputs |-> outs, buf |-> afterWin.buf]

\* st = [bufs, out, handed]; handed = sequence of <<stream, type, x>> (every (stream, event) pair given to a pipeline)
RECURSIVE RunStreams(_, _, _, _, _, _)
RunStreams(prog, strs, e, depth, st, sync) ==
  IF strs = <<>> THEN [st |-> st, newq |-> <<>>]
  ELSE LET s == Head(strs)
           i == Idx(prog, s.name)
           skip == sync /\ ~HasRoute(prog, s.name)
           r == Proc(s, e, st.bufs[i], skip)
           st1 == [bufs |-> [st.bufs EXCEPT ![i] = r.buf], out |-> st.out \o r.emitted,
                   handed |-> Append(st.handed, <<s.name, e.type, e.x>>)]
           rest == RunStreams(prog, Tail(strs), e, depth, st1, sync)
       IN [st |-> rest.st,
           newq |-> [k \in 1..Len(r.outputs) |-> <<r.outputs[k], depth + 1>>] \o rest.newq]

RECURSIVE Run(_, _, _, _)
Run(prog, queue, st, sync) ==
  IF queue = <<>> THEN st
  ELSE LET e == Head(queue)[1]  d == Head(queue)[2] IN
       IF d >= MaxDepth THEN Run(prog, Tail(queue), st, sync)
       ELSE LET r == RunStreams(prog, Routes(prog, e.type), e, d, st, sync)
            IN Run(prog, Tail(queue) \o r.newq, r.st, sync)

St0(prog) == [bufs |-> [i \in 1..Len(prog) |-> <<>>], out |-> <<>>, handed |-> <<>>]
RECURSIVE PerEvent(_, _, _)
PerEvent(prog, es, st) == IF es = <<>> THEN st ELSE PerEvent(prog, Tail(es), Run(prog, <<<<Head(es), 0>>>>, st, FALSE))
\* a batch run over a split of the input: each batch is one queue
RECURSIVE Batches(_, _, _, _)
Batches(prog, bs, st, sync) == IF bs = <<>> THEN st
                               ELSE Batches(prog, Tail(bs), Run(prog, [k \in 1..Len(Head(bs)) |-> <<Head(bs)[k], 0>>], st, sync), sync)
\* split es at the cut positions given as a bit mask m (bit k set = cut after element k)
RECURSIVE SplitAt(_, _, _, _)
SplitAt(es, k, m, cur) ==
  IF k > Len(es) THEN (IF cur = <<>> THEN <<>> ELSE <<cur>>)
  ELSE LET c2 == Append(cur, es[k]) IN
       IF (m \div (2 ^ (k - 1))) % 2 = 1 /\ k < Len(es) THEN <<c2>> \o SplitAt(es, k + 1, m, <<>>)
       ELSE SplitAt(es, k + 1, m, c2)

\* programs: sequences of streams from the pool with distinct names
RECURSIVE Distinct(_)
Distinct(p) == \A i, j \in 1..Len(p) : i # j => p[i].name # p[j].name
Programs == { p \in UNION { [1..n -> Pool] : n \in 1..MaxStreams } : Distinct(p) }

VARIABLES prog, es, mask,
          kk,  \* number of streams loaded by the first Engine::load (the rest is loaded additively later)
          jj   \* number of input events processed before the second load
vars == <<prog, es, mask, kk, jj>>
AllEs == UNION { [1..n -> Events] : n \in 1..MaxLen }
Init == /\ prog \in (IF NProgs = 0 THEN Programs ELSE RandomSubset(NProgs, Programs))
        /\ es \in (IF NStreams = 0 THEN AllEs ELSE RandomSubset(NStreams, AllEs))
        /\ mask \in 0..((2 ^ (MaxLen - 1)) - 1)
        /\ kk \in (IF TwoPhase THEN 1..Len(prog) ELSE {Len(prog)})
        /\ jj \in (IF TwoPhase /\ kk < Len(prog) THEN 0..Len(es) ELSE {0})
Next == UNCHANGED vars

\* phase 1 runs the first k streams (their indices are the same in the full program), phase 2 the full program
P1 == SubSeq(prog, 1, kk)
Es1 == SubSeq(es, 1, jj)
Es2 == SubSeq(es, jj + 1, Len(es))
TwoPer == IF kk = Len(prog) THEN PerEvent(prog, es, St0(prog))
          ELSE PerEvent(prog, Es2, PerEvent(P1, Es1, St0(prog)))
Strip(o) == [ii \in 1..Len(o) |-> [type |-> o[ii].type, x |-> o[ii].x]]
Per == TwoPer
Async == IF kk = Len(prog) THEN Batches(prog, SplitAt(es, 1, mask, <<>>), St0(prog), FALSE)
         ELSE Batches(prog, SplitAt(Es2, 1, mask, <<>>), Batches(P1, SplitAt(Es1, 1, mask, <<>>), St0(prog), FALSE), FALSE)
Sync  == IF kk = Len(prog) THEN Batches(prog, SplitAt(es, 1, mask, <<>>), St0(prog), TRUE)
         ELSE Batches(prog, SplitAt(Es2, 1, mask, <<>>), Batches(P1, SplitAt(Es1, 1, mask, <<>>), St0(prog), TRUE), TRUE)
\* C16 (as stated: the emitted output SEQUENCE is the same for every entry point and every split)
AsyncEq == Per.out = Async.out
SyncEq  == Per.out = Sync.out
\* C17: every (stream, event) pair handed exactly as often as the routing says.  In the queue machine each queued
\* event is handed once to each stream routed on its type: checked as "handed has no more entries than routed ones"
\* and, on the implementation, that the recorded multiset of handed pairs equals the model's.
BagEq(a, b) == \A x \in ToSet(a) \cup ToSet(b) : Cardinality({i \in 1..Len(a) : a[i] = x}) = Cardinality({i \in 1..Len(b) : b[i] = x})
HandedSame == BagEq(Per.handed, Async.handed)      \* the async batch path hands over the same pairs as per-event processing
=============================================================================
