---- MODULE DispatchMC ----
EXTENDS Dispatch, Json
S(n, srcs, w, win, pr, em) == [name |-> n, srcs |-> srcs, where |-> w, win |-> win, proc |-> pr, emit |-> em]
MCPool == { S("F", {"A"}, TRUE,  0, FALSE, FALSE),      \* filter without emit
            S("G", {"A"}, FALSE, 0, FALSE, TRUE),       \* plain emitter
            S("D", {"A"}, TRUE,  0, FALSE, TRUE),       \* derived stream
            S("E", {"D"}, FALSE, 0, FALSE, TRUE),       \* consumer of D
            S("M", {"D", "B"}, FALSE, 2, FALSE, TRUE),  \* merge(D, B) with a count window
            S("W", {"A"}, FALSE, 2, FALSE, TRUE),       \* count window on A
            S("X", {"A"}, FALSE, 0, TRUE,  FALSE),      \* .process() without .emit()
            S("Y", {"X"}, TRUE,  0, FALSE, TRUE),       \* consumer of the .process() stream
            S("H", {"B"}, FALSE, 0, FALSE, TRUE),
            S("N", {"A", "B"}, TRUE, 0, FALSE, TRUE) }  \* merge whose BRANCHES carry the filter, written with a user function (rendered so by the harness)
Emit == PrintT(<<"CASE", ToJson([prog |-> prog, es |-> es, mask |-> mask, k |-> kk, j |-> jj,
                  split1 |-> IF kk = Len(prog) THEN <<>> ELSE SplitAt(Es1, 1, mask, <<>>),
                  split |-> IF kk = Len(prog) THEN SplitAt(es, 1, mask, <<>>) ELSE SplitAt(Es2, 1, mask, <<>>),
                  per |-> Strip(Per.out), async |-> Strip(Async.out), sync |-> Strip(Sync.out),
                  hper |-> Per.handed, hasync |-> Async.handed, hsync |-> Sync.handed])>>)
====
