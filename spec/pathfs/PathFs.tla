---- MODULE PathFs ----
(* C31: a path the server accepts resolves inside the work directory.
   A small POSIX-like tree (nodes are sequences of names from the root) with symbolic links in and out of the work
   directory, a sibling directory whose NAME extends the work directory's name ("wd" / "wd_backup"), "." and ".." segments,
   absolute and relative requests.  Resolve is the file system's meaning of a path; the property:
       Accept(path) => Resolve(path) is the work directory or a descendant of it.
   TLC enumerates every request of up to MaxSegs segments with its resolution; the harness materialises the tree in a
   temporary directory and calls the real validate_path. *)
EXTENDS Naturals, Sequences, FiniteSets, TLC, Json
CONSTANT MaxSegs
Wd == <<"wd">>
Dirs == { <<>>, <<"wd">>, <<"wd", "sub">>, <<"wd_backup">>, <<"out">> }
Files == { <<"wd", "f">>, <<"wd", "sub", "g">>, <<"wd_backup", "h">>, <<"out", "o">> }
\* symbolic links: at = the link's own location, abs = absolute target, tgt = target segments
Links == { [at |-> <<"wd", "lin">>,        abs |-> FALSE, tgt |-> <<"sub">>],
           [at |-> <<"wd", "lout">>,       abs |-> FALSE, tgt |-> <<"..", "out">>],
           [at |-> <<"wd", "lback">>,      abs |-> FALSE, tgt |-> <<"..", "wd_backup">>],
           [at |-> <<"wd", "labs">>,       abs |-> TRUE,  tgt |-> <<"out", "o">>],
           [at |-> <<"wd", "sub", "lup">>, abs |-> FALSE, tgt |-> <<"..">>],
           [at |-> <<"wd", "lself">>,      abs |-> TRUE,  tgt |-> <<"wd", "f">>],
           [at |-> <<"out", "lwd">>,       abs |-> FALSE, tgt |-> <<"..", "wd">>] }
Names == { "f", "sub", "g", "..", ".", "lin", "lout", "lback", "labs", "lup", "lself", "lwd", "o", "h", "wd", "wd_backup", "out", "missing" }
Parent(n) == IF n = <<>> THEN <<>> ELSE SubSeq(n, 1, Len(n) - 1)
LinkAt(p) == { l \in Links : l.at = p }
Fail == <<"!fail">>
RECURSIVE Res(_, _, _)
Res(cur, segs, hops) ==       \* cur: a directory node; hops bounds symlink chains
  IF cur = Fail \/ hops > 8 THEN Fail
  ELSE IF segs = <<>> THEN cur
  ELSE LET s == Head(segs)  rest == Tail(segs) IN
       IF cur \in Files THEN Fail                                   \* a file has no children
       ELSE IF s = "." THEN Res(cur, rest, hops)
       ELSE IF s = ".." THEN Res(Parent(cur), rest, hops)
       ELSE LET p == Append(cur, s) IN
            IF LinkAt(p) # {} THEN LET l == CHOOSE x \in LinkAt(p) : TRUE IN
                                    Res(IF l.abs THEN <<>> ELSE cur, l.tgt \o rest, hops + 1)
            ELSE IF p \in Dirs \cup Files THEN Res(p, rest, hops)
            ELSE Fail
Resolve(abs, segs) == Res(IF abs THEN <<>> ELSE Wd, segs, 0)
IsPrefixSeq(a, b) == Len(a) <= Len(b) /\ SubSeq(b, 1, Len(a)) = a
Inside(n) == n # Fail /\ IsPrefixSeq(Wd, n)
VARIABLES abs, segs
Init == abs \in BOOLEAN /\ segs \in UNION { [1..k -> Names] : k \in 1..MaxSegs }
Next == UNCHANGED <<abs, segs>>
\* sanity of the model: resolution never ends on a link, and "wd_backup" is not inside "wd"
ModelSane == /\ LinkAt(Resolve(abs, segs)) = {}
             /\ ~Inside(<<"wd_backup", "h">>)
Emit == PrintT(<<"CASE", ToJson([abs |-> abs, segs |-> segs, res |-> Resolve(abs, segs), exists |-> Resolve(abs, segs) # Fail, inside |-> Inside(Resolve(abs, segs))])>>)
====
