CONSTANT MaxSegs = 3
INIT Init
NEXT Next
INVARIANT ModelSane
INVARIANT Emit
CHECK_DEADLOCK FALSE
