INIT Init
NEXT Next
INVARIANT RefConsistent
INVARIANT Emit
CHECK_DEADLOCK FALSE
