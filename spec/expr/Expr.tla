------------------------------- MODULE Expr --------------------------------
(* Transcription of the VPL evaluator (Binary/Unary arms), of the constant folder, and of the
   SASE predicate translation + evaluation, over exact rationals. *)
EXTENDS Integers, Sequences, FiniteSets, TLC

\* ---------- values ----------
I(n) == [t |-> "int", n |-> n, d |-> 1]
RECURSIVE Gcd(_, _)
Gcd(a, b) == IF b = 0 THEN a ELSE Gcd(b, a % b)
Abs(x) == IF x < 0 THEN -x ELSE x
Norm(n, d) == LET g == Gcd(Abs(n), Abs(d))  s == IF d < 0 THEN -1 ELSE 1 IN
              IF n = 0 THEN [n |-> 0, d |-> 1] ELSE [n |-> s * (n \div g), d |-> s * (d \div g)]
F(n, d) == LET q == Norm(n, d) IN [t |-> "flt", n |-> q.n, d |-> q.d]
S(x) == [t |-> "str", s |-> x]
B(b) == [t |-> "bool", b |-> b]
Null == [t |-> "null"]
None == [t |-> "none"]
IsNum(x) == x.t \in {"int", "flt"}
IsFlt(x) == x.t = "flt"
Lt(a, b) == a.n * b.d < b.n * a.d          \* numeric order (denominators positive)
EqNum(a, b) == a.n * b.d = b.n * a.d
TruncDiv(a, b) == LET q == Abs(a) \div Abs(b) IN IF (a < 0) # (b < 0) THEN -q ELSE q      \* Rust i64 `/`
RemRust(a, b) == a - b * TruncDiv(a, b)                                                      \* Rust i64 `%`

\* ---------- evaluator: eval_expr_with_functions ----------
ArOps == {"add", "sub", "mul", "div", "mod"}
CmpOps == {"lt", "le", "gt", "ge"}
EqOps == {"eq", "ne"}
LogOps == {"and", "or"}
BinOps == ArOps \cup CmpOps \cup EqOps \cup LogOps

Arith(op, a, b) ==
  IF a.t = "int" /\ b.t = "int" THEN
      CASE op = "add" -> I(a.n + b.n) [] op = "sub" -> I(a.n - b.n) [] op = "mul" -> I(a.n * b.n)
        [] op = "div" -> IF b.n # 0 THEN I(TruncDiv(a.n, b.n)) ELSE None
        [] op = "mod" -> IF b.n # 0 THEN I(RemRust(a.n, b.n)) ELSE None
  ELSE IF IsNum(a) /\ IsNum(b) THEN
      CASE op = "add" -> F(a.n * b.d + b.n * a.d, a.d * b.d)
        [] op = "sub" -> F(a.n * b.d - b.n * a.d, a.d * b.d)
        [] op = "mul" -> F(a.n * b.n, a.d * b.d)
        [] op = "div" -> IF b.n # 0 THEN F(a.n * b.d, a.d * b.n) ELSE None
        [] op = "mod" -> IF b.n # 0 THEN LET q == TruncDiv(a.n * b.d, a.d * b.n)           \* fmod: a - b * trunc(a / b)
                                         IN F(a.n * b.d - q * b.n * a.d, a.d * b.d) ELSE None
  ELSE IF a.t = "str" /\ b.t = "str" /\ op = "add" THEN [t |-> "cat", a |-> a.s, b |-> b.s]
  ELSE None

\* PartialEq for Value: same variant and equal payload; int vs float is NOT equal
ValEq(a, b) == IF a.t # b.t THEN FALSE
               ELSE CASE a.t \in {"int", "flt"} -> EqNum(a, b)
                      [] a.t = "str" -> a.s = b.s
                      [] a.t = "bool" -> a.b = b.b
                      [] a.t = "null" -> TRUE
                      [] OTHER -> a = b

CONSTANT MixedLeGe   \* FALSE = today's evaluator (no int/float arms for <= and >=); TRUE = repaired
Cmp(op, a, b) ==
  IF ~(IsNum(a) /\ IsNum(b)) THEN None
  ELSE IF op \in {"le", "ge"} /\ a.t # b.t /\ ~MixedLeGe THEN None
  ELSE B(CASE op = "lt" -> Lt(a, b) [] op = "gt" -> Lt(b, a)
           [] op = "le" -> ~Lt(b, a) [] op = "ge" -> ~Lt(a, b))

RECURSIVE Eval(_, _)
Eval(e, env) ==
  CASE e.k = "lit" -> e.v
    [] e.k = "fld" -> env[e.name]                       \* a missing field is None
    [] e.k = "un"  -> LET x == Eval(e.e, env) IN
                      IF x = None THEN None
                      ELSE IF e.op = "neg" THEN (IF x.t = "int" THEN I(-x.n) ELSE IF x.t = "flt" THEN F(-x.n, x.d) ELSE None)
                      ELSE (IF x.t = "bool" THEN B(~x.b) ELSE None)
    [] e.k = "bin" -> LET a == Eval(e.l, env)  b == Eval(e.r, env) IN
                      IF a = None \/ b = None THEN None
                      ELSE IF e.op \in ArOps THEN Arith(e.op, a, b)
                      ELSE IF e.op \in CmpOps THEN Cmp(e.op, a, b)
                      ELSE IF e.op = "eq" THEN B(ValEq(a, b))
                      ELSE IF e.op = "ne" THEN B(~ValEq(a, b))
                      ELSE IF a.t = "bool" /\ b.t = "bool" THEN B(IF e.op = "and" THEN a.b /\ b.b ELSE a.b \/ b.b)
                      ELSE None
AcceptWhere(e, env) == LET v == Eval(e, env) IN v.t = "bool" /\ v.b

\* ---------- constant folder: optimize.rs ----------
Lit(v) == [k |-> "lit", v |-> v]
IsLitInt(e, n) == e.k = "lit" /\ e.v.t = "int" /\ e.v.n = n
RECURSIVE Fold(_)
Fold(e) ==
  CASE e.k = "un" ->
         LET x == Fold(e.e) IN
         IF e.op = "neg" /\ x.k = "lit" /\ x.v.t = "int" THEN Lit(I(-x.v.n))
         ELSE IF e.op = "neg" /\ x.k = "lit" /\ x.v.t = "flt" THEN Lit(F(-x.v.n, x.v.d))
         ELSE [e EXCEPT !.e = x]
    [] e.k = "bin" ->
         LET l == Fold(e.l)  r == Fold(e.r)
             bothInt == l.k = "lit" /\ r.k = "lit" /\ l.v.t = "int" /\ r.v.t = "int"
             bothFlt == l.k = "lit" /\ r.k = "lit" /\ l.v.t = "flt" /\ r.v.t = "flt"
         IN IF bothInt /\ e.op \in {"add", "sub", "mul"} THEN Lit(Arith(e.op, l.v, r.v))
            ELSE IF bothInt /\ e.op \in {"div", "mod"} /\ r.v.n # 0 THEN Lit(Arith(e.op, l.v, r.v))
            ELSE IF bothFlt /\ e.op \in {"add", "sub", "mul"} THEN Lit(Arith(e.op, l.v, r.v))
            ELSE IF bothFlt /\ e.op = "div" /\ r.v.n # 0 THEN Lit(Arith(e.op, l.v, r.v))
            ELSE IF e.op = "mul" /\ (IsLitInt(r, 0) \/ IsLitInt(l, 0)) THEN Lit(I(0))
            ELSE IF e.op = "mul" /\ IsLitInt(r, 1) THEN l
            ELSE IF e.op = "mul" /\ IsLitInt(l, 1) THEN r
            ELSE IF e.op = "add" /\ IsLitInt(r, 0) THEN l
            ELSE IF e.op = "add" /\ IsLitInt(l, 0) THEN r
            ELSE IF e.op = "sub" /\ IsLitInt(r, 0) THEN l
            ELSE IF e.op = "div" /\ IsLitInt(r, 1) THEN l
            ELSE [e EXCEPT !.l = l, !.r = r]
    [] OTHER -> e

\* ---------- SASE predicate: expr_to_sase_predicate + eval_predicate ----------
IsValueLit(e) == e.k = "lit" /\ e.v.t \in {"int", "flt", "str", "bool"}
RECURSIVE ToPred(_)
ToPred(e) ==   \* result: predicate tree, or [p |-> "nopred"] when translation yields None
  IF e.k = "bin" /\ e.op \in CmpOps \cup EqOps THEN
       IF e.l.k = "fld" /\ IsValueLit(e.r) THEN [p |-> "cmp", f |-> e.l.name, op |-> e.op, v |-> e.r.v]
       ELSE [p |-> "expr", e |-> e]
  ELSE IF e.k = "bin" /\ e.op \in LogOps THEN
       LET a == ToPred(e.l)  b == ToPred(e.r) IN
       IF a.p = "nopred" \/ b.p = "nopred" THEN [p |-> "nopred"] ELSE [p |-> e.op, a |-> a, b |-> b]
  ELSE IF e.k = "bin" THEN [p |-> "nopred"]                       \* arithmetic at predicate position: `?` on None
  ELSE IF e.k = "un" /\ e.op = "not" THEN
       LET a == ToPred(e.e) IN IF a.p = "nopred" THEN [p |-> "nopred"] ELSE [p |-> "not", a |-> a]
  ELSE [p |-> "expr", e |-> e]

ValuesEqual(a, b) == CASE a.t = "int" /\ b.t = "int" -> a.n = b.n
                       [] IsNum(a) /\ IsNum(b) -> EqNum(a, b)           \* epsilon equality, incl. int vs float
                       [] a.t = "str" /\ b.t = "str" -> a.s = b.s
                       [] a.t = "bool" /\ b.t = "bool" -> a.b = b.b
                       [] OTHER -> FALSE
ValuesLess(a, b) == CASE IsNum(a) /\ IsNum(b) -> [def |-> TRUE, lt |-> Lt(a, b), eq |-> EqNum(a, b)]
                      [] a.t = "str" /\ b.t = "str" -> [def |-> TRUE, lt |-> a.s < b.s, eq |-> a.s = b.s]   \* strings are ints here
                      [] OTHER -> [def |-> FALSE, lt |-> FALSE, eq |-> FALSE]
CompareValues(a, b, op) ==
  CASE op = "eq" -> ValuesEqual(a, b) [] op = "ne" -> ~ValuesEqual(a, b)
    [] OTHER -> LET c == ValuesLess(a, b) IN
                c.def /\ CASE op = "lt" -> c.lt [] op = "le" -> c.lt \/ c.eq
                           [] op = "gt" -> ~c.lt /\ ~c.eq [] op = "ge" -> ~c.lt
RECURSIVE EvalPred(_, _)
EvalPred(p, env) ==
  CASE p.p = "cmp"  -> env[p.f] # None /\ CompareValues(env[p.f], p.v, p.op)
    [] p.p = "and"  -> EvalPred(p.a, env) /\ EvalPred(p.b, env)
    [] p.p = "or"   -> EvalPred(p.a, env) \/ EvalPred(p.b, env)
    [] p.p = "not"  -> ~EvalPred(p.a, env)
    [] p.p = "expr" -> AcceptWhere(p.e, env)
    [] p.p = "nopred" -> TRUE
AcceptStep(e, env) == EvalPred(ToPred(e), env)

\* ---------- expression builder ----------
CONSTANTS MaxSize
CONSTANT LeafSet   \* "small" | "cmp" | "full"
BaseLeaves == { Lit(I(0)), Lit(I(1)), Lit(I(2)), Lit(F(3, 2)), Lit(F(0, 1)), Lit(S(1)), Lit(B(TRUE)) }
          \cup { [k |-> "fld", name |-> nm] : nm \in {"i", "f", "s", "m"} }
CmpLeaves == { Lit(I(n)) : n \in {-1, 0, 2} } \cup { Lit(F(n, 2)) : n \in {-2, 0, 3, 4} }
          \cup { [k |-> "fld", name |-> nm] : nm \in {"i", "f"} }
Leaves == IF LeafSet = "cmp" THEN CmpLeaves
          ELSE IF LeafSet = "full" THEN BaseLeaves \cup { Lit(I(-1)), Lit(F(2, 1)), Lit(Null), Lit(B(FALSE)), Lit(S(2)) }
          ELSE BaseLeaves
Envs == { [i |-> I(1), f |-> F(1, 1), s |-> S(1), m |-> None],
          [i |-> I(2), f |-> F(3, 2), s |-> S(2), m |-> None],
          [i |-> I(0), f |-> F(-1, 2), s |-> S(1), m |-> None],
          [i |-> I(-3), f |-> F(0, 1), s |-> S(0), m |-> None] }
VARIABLES stack, env
Init == stack = <<>> /\ env \in Envs
RECURSIVE Size(_)
Size(e) == CASE e.k = "bin" -> Size(e.l) + Size(e.r) [] e.k = "un" -> Size(e.e) [] OTHER -> 1
Push == \E lf \in Leaves : stack' = Append(stack, lf) /\ UNCHANGED env
Un == /\ Len(stack) >= 1 /\ stack[Len(stack)].k # "un"
      /\ \E op \in {"neg", "not"} : stack' = [stack EXCEPT ![Len(stack)] = [k |-> "un", op |-> op, e |-> @]]
      /\ UNCHANGED env
Comb == /\ Len(stack) >= 2
        /\ \E op \in BinOps :
             stack' = Append(SubSeq(stack, 1, Len(stack) - 2), [k |-> "bin", op |-> op, l |-> stack[Len(stack)-1], r |-> stack[Len(stack)]])
        /\ UNCHANGED env
Next == Push \/ Un \/ Comb
Bound == /\ Len(stack) <= 2
         /\ (LET RECURSIVE Tot(_)
                 Tot(i) == IF i > Len(stack) THEN 0 ELSE Size(stack[i]) + Tot(i + 1)
             IN Tot(1) <= MaxSize)
Top == stack[Len(stack)]
Done == Len(stack) = 1

\* ---------- properties ----------
\* C08 reference value of a comparison whose operands are numeric: the mathematical order
MathCmp(op, a, b) == CASE op = "lt" -> Lt(a, b) [] op = "gt" -> Lt(b, a) [] op = "le" -> ~Lt(b, a) [] op = "ge" -> ~Lt(a, b)
IsNumCmp(e, en) == e.k = "bin" /\ e.op \in CmpOps /\ IsNum(Eval(e.l, en)) /\ IsNum(Eval(e.r, en))
GeConsistent == (Done /\ IsNumCmp(Top, env) /\ Top.op = "ge") =>           \* a >= b  <=>  a > b or numerically equal
                 LET a == Eval(Top.l, env)  b == Eval(Top.r, env) IN
                 Eval(Top, env) = B(Lt(b, a) \/ EqNum(a, b))
FoldSound == Done => Eval(Fold(Top), env) = Eval(Top, env)                                  \* C10
CmpMath == (Done /\ Top.k = "bin" /\ Top.op \in CmpOps) =>                                  \* C08
             LET a == Eval(Top.l, env)  b == Eval(Top.r, env) IN
             (IsNum(a) /\ IsNum(b)) => Eval(Top, env) = B(CASE Top.op = "lt" -> Lt(a, b) [] Top.op = "gt" -> Lt(b, a)
                                                             [] Top.op = "le" -> ~Lt(b, a) [] Top.op = "ge" -> ~Lt(a, b))
RECURSIVE IsFilter(_)
IsFilter(e) == \/ (e.k = "bin" /\ e.op \in CmpOps \cup EqOps)
               \/ (e.k = "bin" /\ e.op \in LogOps /\ IsFilter(e.l) /\ IsFilter(e.r))
               \/ (e.k = "un" /\ e.op = "not" /\ IsFilter(e.e))
SameFilter == (Done /\ IsFilter(Top)) => AcceptWhere(Top, env) = AcceptStep(Top, env)       \* C09
=============================================================================
