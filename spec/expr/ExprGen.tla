---- MODULE ExprGen ----
(* Every expression the builder reaches (each once) in every environment, with the model's value, folded value,
   .where verdict, step verdict and -- for numeric comparisons -- the mathematical verdict. *)
EXTENDS Expr, Json
Emit == Done => PrintT(<<"CASE", ToJson([e |-> Top, env |-> env, val |-> Eval(Top, env), fval |-> Eval(Fold(Top), env),
                                          isf |-> IsFilter(Top), w |-> AcceptWhere(Top, env), st |-> AcceptStep(Top, env),
                                          numcmp |-> IsNumCmp(Top, env),
                                          math |-> IF IsNumCmp(Top, env) THEN MathCmp(Top.op, Eval(Top.l, env), Eval(Top.r, env)) ELSE FALSE])>>)
\* only the numeric comparisons (C08) / only the filters (C09): fewer lines to print
EmitCmp == (Done /\ IsNumCmp(Top, env)) => Emit
EmitFilter == (Done /\ IsFilter(Top)) => Emit
====
