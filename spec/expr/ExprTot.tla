---- MODULE ExprTot ----
(* C11 corpus: every operator and built-in applied to every tuple of boundary values (symbolic leaves).  The spec's
   role is the enumeration of the input space and, per case, whether exact integer arithmetic leaves the i64 range
   (so the evidence can show that overflowing cases were reached); the property itself -- evaluation returns a value
   or no value, never panics -- is decided on the implementation by the harness (evaluator, .where and .emit). *)
EXTENDS Integers, Sequences, TLC, Json, FiniteSets
Leaves == {"MIN","MINP1","NEG1","ZERO","ONE","TWO","SIXTYFOUR","MAX","NAN","INF","NINF","NEGZERO","F15","FBIG","FNEG",
           "EMPTYSTR","ABC","UNI","NUMSTR","TRUE","FALSE","NULL","EMPTYARR","ARR12","ARRNEST","ARRMIX","EMPTYMAP","MAP1","TS","DUR","MISSING"}
Third == {"NEG1","ZERO","ONE","TWO","MAX","MIN","ABC","UNI","EMPTYSTR","F15"}
BinOps == {"add","sub","mul","div","mod","pow","lt","le","gt","ge","eq","ne","and","or","xor","in","notin"}
UnOps == {"neg","not","bitnot"}
Fun1 == {"abs","sqrt","floor","ceil","round","log","log10","exp","sin","cos","tan","len","first","last","pop","reverse","sort",
         "keys","values","range","sum","avg","to_string","to_int","to_float","trim","lower","upper","type_of","is_null","is_int","is_float",
         "is_string","is_bool","is_array","is_map","min","max"}
Fun2 == {"pow","min","max","contains","push","get","split","join","starts_with","ends_with","substring","range","replace","set"}
Fun3 == {"substring","replace","set","range"}
\* exact value of the integer leaves (for the overflow flag)
IsInt(l) == l \in {"MIN","MINP1","NEG1","ZERO","ONE","TWO","SIXTYFOUR","MAX"}
\* TLC integers are 32 bit: the flag is computed symbolically on the extreme leaves instead of by arithmetic
Extreme(l) == l \in {"MIN","MINP1","MAX"}
Ovf(k, op, x, y) ==
  \/ (k = "bin" /\ IsInt(x) /\ IsInt(y) /\ op \in {"add","sub","mul"} /\ (Extreme(x) \/ Extreme(y)) /\ x # "ZERO" /\ y # "ZERO")
  \/ (k = "bin" /\ op \in {"div","mod"} /\ x = "MIN" /\ y = "NEG1")
  \/ (k = "bin" /\ op = "pow" /\ IsInt(x) /\ IsInt(y) /\ (Extreme(x) \/ y \in {"SIXTYFOUR","MAX"}))
  \/ (k = "un" /\ op = "neg" /\ x = "MIN")
  \/ (k = "call" /\ op = "abs" /\ x = "MIN")
VARIABLES k, op, x, y, z
Init == \/ (k = "bin" /\ op \in BinOps /\ x \in Leaves /\ y \in Leaves /\ z = "NONE")
        \/ (k = "un" /\ op \in UnOps /\ x \in Leaves /\ y = "NONE" /\ z = "NONE")
        \/ (k = "call" /\ op \in Fun1 /\ x \in Leaves /\ y = "NONE" /\ z = "NONE")
        \/ (k = "call" /\ op \in Fun2 /\ x \in Leaves /\ y \in Leaves /\ z = "NONE")
        \/ (k = "call" /\ op \in Fun3 /\ x \in Leaves /\ y \in Leaves /\ z \in Third)
Next == UNCHANGED <<k, op, x, y, z>>
Emit == PrintT(<<"CASE", ToJson([k |-> k, op |-> op, x |-> x, y |-> y, z |-> z, ovf |-> Ovf(k, op, x, y)])>>)
====
