---- MODULE CmpEdge ----
(* C08 at the edges of the numeric domain.  Operands are symbolic constants with their exact mathematical rank
   (two constants with the same rank are numerically equal); the harness maps each symbol to the concrete Value.
   TLC enumerates every ordered pair and operator; the expected verdict is the order of the ranks.  Contexts are
   exercised by the harness: .where, .emit, sequence step against a literal, sequence step against a captured event. *)
EXTENDS Integers, Sequences, TLC, Json
Consts == { [name |-> "NINF",    rank |-> 0,  kind |-> "flt"],
            [name |-> "NEGTINY", rank |-> 1,  kind |-> "flt"],      \* -1e-17
            [name |-> "ZERO_I",  rank |-> 2,  kind |-> "int"],
            [name |-> "ZERO_F",  rank |-> 2,  kind |-> "flt"],
            [name |-> "TINY",    rank |-> 3,  kind |-> "flt"],      \* 1e-17
            [name |-> "TINY2",   rank |-> 4,  kind |-> "flt"],      \* 2e-17
            [name |-> "P3",      rank |-> 5,  kind |-> "flt"],      \* 0.3
            [name |-> "P3B",     rank |-> 6,  kind |-> "flt"],      \* 0.30000000000000004 (0.1 + 0.2)
            [name |-> "ONE_I",   rank |-> 7,  kind |-> "int"],
            [name |-> "ONE_F",   rank |-> 7,  kind |-> "flt"],
            [name |-> "BIG_I",   rank |-> 8,  kind |-> "int"],      \* 2^53
            [name |-> "BIG_F",   rank |-> 8,  kind |-> "flt"],      \* 2^53 as float
            [name |-> "BIG1_I",  rank |-> 9,  kind |-> "int"],      \* 2^53 + 1 (not representable as f64)
            [name |-> "MAX_I",   rank |-> 10, kind |-> "int"],      \* i64::MAX
            [name |-> "INF",     rank |-> 11, kind |-> "flt"] }
Ops == {"lt", "le", "gt", "ge"}
Math(op, a, b) == CASE op = "lt" -> a.rank < b.rank [] op = "le" -> a.rank <= b.rank
                    [] op = "gt" -> a.rank > b.rank [] op = "ge" -> a.rank >= b.rank
VARIABLES a, b, op
Init == a \in Consts /\ b \in Consts /\ op \in Ops
Next == UNCHANGED <<a, b, op>>
\* sanity of the reference itself: >= is > or numerically equal; <= is the converse of >=
RefConsistent == /\ Math("ge", a, b) = (Math("gt", a, b) \/ a.rank = b.rank)
                 /\ Math("le", a, b) = Math("ge", b, a)
                 /\ Math("lt", a, b) = ~Math("ge", a, b)
Emit == PrintT(<<"CASE", ToJson([a |-> a.name, b |-> b.name, op |-> op, math |-> Math(op, a, b),
                                  mixed |-> a.kind # b.kind, samerank |-> a.rank = b.rank])>>)
====
