----------------------------- MODULE Window -----------------------------
EXTENDS Integers, Sequences, FiniteSets, TLC, SequencesExt, FiniteSetsExt
CONSTANTS Configs, MaxTs, MaxLen
(* a config: [kind, d, s, inorder, wm] *)
(* Kind in {"tumbling","count","session","sliding","slidingcount"}; D = duration/size/gap; S = slide *)

VARIABLES cfg,     \* the window configuration of this behaviour (chosen in Init, then constant)
          arr,     \* arrivals: seq of ts (event id = index)
          buf,     \* buffered event ids
          start,   \* tumbling: window_start; session: last_event_time; sliding: last_emit ; -1 = None
          since,   \* slidingcount: events_since_emit
          closed,  \* seq of emitted windows (each a seq of ids)
          trig,    \* seq of [at |-> arrival index or 0 for watermark, kind]
          wmOpened \* tumbling: current window was opened by a watermark close
vars == <<cfg, arr, buf, start, since, closed, trig, wmOpened>>

Ts(i) == arr[i]
None == -1

Kind == cfg.kind
D == cfg.d
S == cfg.s
InOrder == cfg.inorder
UseWm == cfg.wm

Init == cfg \in Configs /\ arr = <<>> /\ buf = <<>> /\ start = None /\ since = 0 /\ closed = <<>> /\ trig = <<>> /\ wmOpened = FALSE

Add(t) ==
  LET n == Len(arr) + 1 IN
  /\ arr' = Append(arr, t)
  /\ CASE Kind = "tumbling" ->
            LET st == IF start = None THEN t ELSE start IN
            /\ (IF t >= st + D
              THEN closed' = Append(closed, buf) /\ buf' = <<n>> /\ start' = t /\ wmOpened' = FALSE
              ELSE closed' = closed /\ buf' = Append(buf, n) /\ start' = st /\ UNCHANGED wmOpened)
            /\ UNCHANGED since
       [] Kind = "count" ->
            /\ IF Len(buf) + 1 >= D THEN closed' = Append(closed, Append(buf, n)) /\ buf' = <<>>
                                  ELSE closed' = closed /\ buf' = Append(buf, n)
            /\ UNCHANGED <<start, since, wmOpened>>
       [] Kind = "session" ->
            /\ IF start # None /\ t - start > D
                 THEN closed' = Append(closed, buf) /\ buf' = <<n>>
                 ELSE closed' = closed /\ buf' = Append(buf, n)
            /\ start' = t /\ UNCHANGED <<since, wmOpened>>
       [] Kind = "sliding" ->
            LET b1 == Append(buf, n)
                cutoff == t - D
                \* position of first with ts >= cutoff (prefix drop, as in the code)
                idxs == { i \in 1..Len(b1) : arr'[b1[i]] >= cutoff }
                firstok == IF idxs = {} THEN Len(b1) + 1 ELSE CHOOSE i \in idxs : \A j \in idxs : i <= j
                b2 == SubSeq(b1, firstok, Len(b1))
                emit == start = None \/ t >= start + S
            IN /\ buf' = b2
               /\ IF emit THEN closed' = Append(closed, b2) /\ start' = t ELSE UNCHANGED <<closed, start>>
               /\ UNCHANGED <<since, wmOpened>>
       [] Kind = "slidingcount" ->
            LET b1 == Append(buf, n)
                b2 == IF Len(b1) > D THEN SubSeq(b1, Len(b1) - D + 1, Len(b1)) ELSE b1
                emit == Len(b2) >= D /\ since + 1 >= S
            IN /\ buf' = b2
               /\ IF emit THEN closed' = Append(closed, b2) /\ since' = 0 ELSE closed' = closed /\ since' = since + 1
               /\ UNCHANGED <<start, wmOpened>>
  /\ trig' = Append(trig, [op |-> "add", t |-> t, nclosed |-> Len(closed')])
  /\ UNCHANGED cfg

Wm(w) ==
  /\ UseWm
  /\ CASE Kind = "tumbling" ->
            /\ start # None /\ w >= start + D /\ buf # <<>>
            /\ closed' = Append(closed, buf) /\ buf' = <<>> /\ start' = w /\ wmOpened' = TRUE
            /\ UNCHANGED since
       [] Kind = "session" ->
            /\ start # None /\ w >= start + D /\ buf # <<>>
            /\ closed' = Append(closed, buf) /\ buf' = <<>> /\ start' = None
            /\ UNCHANGED <<since, wmOpened>>
       [] OTHER -> FALSE
  /\ UNCHANGED <<arr, cfg>>
  /\ trig' = Append(trig, [op |-> "wm", t |-> w, nclosed |-> Len(closed')])

LastTs == IF arr = <<>> THEN 0 ELSE arr[Len(arr)]
LastWm == LET ws == { i \in 1..Len(trig) : trig[i].op = "wm" } IN IF ws = {} THEN 0 ELSE trig[Max(ws)].t
Lo == IF InOrder THEN (IF LastTs > LastWm THEN LastTs ELSE LastWm) ELSE 0
Next == /\ Len(arr) < MaxLen
        /\ \/ \E t \in Lo..MaxTs : Add(t)
           \/ \E w \in 0..MaxTs : Wm(w)

\* ---------------- properties ----------------
Flat(ss) == FoldLeft(LAMBDA acc, s : acc \o s, <<>>, ss)
\* C12 partition: closed windows then buffer = arrivals in order, each once
ExactlyOnce == (Kind \in {"tumbling","count","session"}) => Flat(closed) \o buf = [i \in 1..Len(arr) |-> i]
CountSize == (Kind = "count") => \A k \in 1..Len(closed) : Len(closed[k]) = D
AllWindows == closed \o <<buf>>
TumblingSpan == (Kind = "tumbling" /\ InOrder) =>
    \A k \in 1..Len(AllWindows) : LET w == AllWindows[k] IN
        w # <<>> => \A i \in 1..Len(w) : Ts(w[i]) < Ts(w[1]) + D
SessionGaps == (Kind = "session" /\ InOrder) =>
    \A k \in 1..Len(AllWindows) : LET w == AllWindows[k] IN
        \A i \in 1..(Len(w)-1) : Ts(w[i+1]) - Ts(w[i]) <= D
\* C13 count-sliding: each emission is exactly the last D arrivals at that point -> all emitted windows are D consecutive ids
SlidingCountShape == (Kind = "slidingcount") =>
    \A k \in 1..Len(closed) : LET w == closed[k] IN Len(w) = D /\ \A i \in 1..(D-1) : w[i+1] = w[i] + 1
\* emissions exactly every S arrivals once full: last ids of consecutive emissions differ by S; first emission at max(D,S)
SlidingCountTiming == (Kind = "slidingcount") =>
    /\ (closed # <<>> => closed[1][D] = (IF D >= S THEN D ELSE S))
    /\ \A k \in 1..(Len(closed)-1) : closed[k+1][D] - closed[k][D] = S
    /\ (closed = <<>> => Len(arr) < (IF D >= S THEN D ELSE S))
    /\ (closed # <<>> => Len(arr) - closed[Len(closed)][D] < S)
\* C13 time-sliding (in-order): each emission = all arrivals so far with ts >= t - D, in arrival order
SlidingContent == (Kind = "sliding" /\ InOrder) =>
    \A k \in 1..Len(closed) : LET w == closed[k]  n == w[Len(w)]  t == Ts(n) IN
        w = SelectSeq([i \in 1..n |-> i], LAMBDA i : Ts(i) >= t - D)
Spec == Init /\ [][Next]_vars

\* ---- the same properties as operators over an arbitrary observation (arrivals a, closed windows c, buffer b),
\* ---- so that the trace specification can evaluate them on what the real window structs emitted
PExactlyOnce(a, c, b) == Flat(c) \o b = [i \in 1..Len(a) |-> i]
PCountSize(c) == \A k \in 1..Len(c) : Len(c[k]) = D
PTumblingSpan(a, c, b) == \A k \in 1..(Len(c)+1) : LET w == (c \o <<b>>)[k] IN
        w # <<>> => \A i \in 1..Len(w) : a[w[i]] < a[w[1]] + D
PSessionGaps(a, c, b) == \A k \in 1..(Len(c)+1) : LET w == (c \o <<b>>)[k] IN
        \A i \in 1..(Len(w)-1) : a[w[i+1]] - a[w[i]] <= D
PSlidingCountShape(c) == \A k \in 1..Len(c) : LET w == c[k] IN Len(w) = D /\ \A i \in 1..(D-1) : w[i+1] = w[i] + 1
PSlidingCountTiming(a, c) ==
    /\ (c # <<>> => c[1][D] = (IF D >= S THEN D ELSE S))
    /\ \A k \in 1..(Len(c)-1) : c[k+1][D] - c[k][D] = S
    /\ (c = <<>> => Len(a) < (IF D >= S THEN D ELSE S))
    /\ (c # <<>> => Len(a) - c[Len(c)][D] < S)
PSlidingContent(a, c) == \A k \in 1..Len(c) : LET w == c[k]  n == w[Len(w)]  t == a[n] IN
        w = SelectSeq([i \in 1..n |-> i], LAMBDA i : a[i] >= t - D)
\* time-sliding emission timing (in-order): the first arrival emits; afterwards an arrival emits iff its timestamp is at
\* least one slide after the previous emission's trigger
PSlidingTiming(a, c) ==
    LET trigs == [k \in 1..Len(c) |-> c[k][Len(c[k])]] IN
    /\ (Len(a) >= 1 => (Len(c) >= 1 /\ trigs[1] = 1))
    /\ \A k \in 1..(Len(c)-1) : a[trigs[k+1]] >= a[trigs[k]] + S
    /\ \A k \in 1..Len(c) : \A n \in (trigs[k]+1)..(IF k < Len(c) THEN trigs[k+1]-1 ELSE Len(a)) : a[n] < a[trigs[k]] + S
SlidingTiming == (Kind = "sliding" /\ InOrder) => PSlidingTiming(arr, closed)
=========================================================================
