---- MODULE WindowGen ----
EXTENDS WindowMC, Json
Emit == (Len(arr) = MaxLen) => PrintT(<<"CASE", ToJson([cfg |-> cfg, ops |-> trig, closed |-> closed, buf |-> buf])>>)
====
