---- MODULE WindowMC ----
EXTENDS Window
C(k, d, s, io, wm) == [kind |-> k, d |-> d, s |-> s, inorder |-> io, wm |-> wm]
TumblingCfgs == { C("tumbling", d, 1, io, TRUE) : d \in 1..3, io \in BOOLEAN }
CountCfgs == { C("count", d, 1, TRUE, FALSE) : d \in 1..3 }
SessionCfgs == { C("session", d, 1, io, TRUE) : d \in 1..2, io \in BOOLEAN }
SlidingCfgs == { C("sliding", d, s, TRUE, FALSE) : d \in 1..3, s \in 1..3 }
SlidingCountCfgs == { C("slidingcount", d, s, TRUE, FALSE) : d \in 1..3, s \in 1..4 }
C12Cfgs == TumblingCfgs \cup CountCfgs \cup SessionCfgs
C13Cfgs == SlidingCfgs \cup SlidingCountCfgs
AllCfgs == C12Cfgs \cup C13Cfgs
====
