CONSTANTS
  Configs <- AllCfgs
  MaxTs = 5
  MaxLen = 5
INIT Init
NEXT Next
INVARIANTS ExactlyOnce CountSize TumblingSpan SessionGaps SlidingCountShape SlidingCountTiming SlidingContent SlidingTiming
CHECK_DEADLOCK FALSE
