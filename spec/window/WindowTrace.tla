---- MODULE WindowTrace ----
(* Trace validation of the real window structs (and of engine-level window programs).
   {"ev":"reset","cfg":{kind,d,s,inorder,wm}}
   {"ev":"op","op":"add"|"wm","t":T,"emit":[[ids]] (0 or 1 windows),"buf":[ids]}
   The model runs alongside (conf); the C12/C13 invariants are evaluated on the recorded emissions/buffer. *)
EXTENDS Window, Json, IOUtils, TLCExt
Rec == ndJsonDeserialize(IOEnv.TRACE)
VARIABLES l, rclosed, rbuf, conf, nobuf
tvars == <<vars, l, rclosed, rbuf, conf, nobuf>>
IsEv(n) == l <= Len(Rec) /\ Rec[l].ev = n /\ l' = l + 1
C0 == [kind |-> "count", d |-> 1, s |-> 1, inorder |-> TRUE, wm |-> FALSE]
TInit == /\ l = 1 /\ cfg = C0 /\ arr = <<>> /\ buf = <<>> /\ start = None /\ since = 0 /\ closed = <<>> /\ trig = <<>> /\ wmOpened = FALSE
         /\ rclosed = <<>> /\ rbuf = <<>> /\ conf = TRUE /\ nobuf = FALSE
TReset == /\ IsEv("reset")
          /\ cfg' = [kind |-> Rec[l].cfg.kind, d |-> Rec[l].cfg.d, s |-> Rec[l].cfg.s, inorder |-> Rec[l].cfg.inorder, wm |-> Rec[l].cfg.wm]
          /\ arr' = <<>> /\ buf' = <<>> /\ start' = None /\ since' = 0 /\ closed' = <<>> /\ trig' = <<>> /\ wmOpened' = FALSE
          /\ rclosed' = <<>> /\ rbuf' = <<>> /\ conf' = TRUE /\ nobuf' = ("engine" \in DOMAIN Rec[l])
\* a watermark that closes nothing is a no-op of the code but not an enabled action of the model: stutter on the model side
TOp == /\ IsEv("op")
       /\ LET r == Rec[l] IN
          /\ IF r.op = "add" THEN Add(r.t)
             ELSE IF ENABLED Wm(r.t) THEN Wm(r.t) ELSE UNCHANGED vars
          /\ rclosed' = rclosed \o r.emit
          /\ rbuf' = r.buf
          /\ conf' = (conf /\ closed' = rclosed' /\ (nobuf \/ buf' = rbuf'))
          /\ UNCHANGED nobuf
TNext == TReset \/ TOp
\* engine-level observations do not show the buffer: the closed windows must then be a prefix of the arrivals
RExactlyOnce == (Kind \in {"tumbling","count","session"}) =>
                  IF nobuf THEN LET f == Flat(rclosed) IN Len(f) <= Len(arr) /\ f = [i \in 1..Len(f) |-> i]
                  ELSE PExactlyOnce(arr, rclosed, rbuf)
RCountSize == (Kind = "count") => PCountSize(rclosed)
RTumblingSpan == (Kind = "tumbling" /\ InOrder) => PTumblingSpan(arr, rclosed, rbuf)
RSessionGaps == (Kind = "session" /\ InOrder) => PSessionGaps(arr, rclosed, rbuf)
RSlidingCountShape == (Kind = "slidingcount") => PSlidingCountShape(rclosed)
RSlidingCountTiming == (Kind = "slidingcount") => PSlidingCountTiming(arr, rclosed)
RSlidingContent == (Kind = "sliding" /\ InOrder) => PSlidingContent(arr, rclosed)
RSlidingTiming == (Kind = "sliding" /\ InOrder) => PSlidingTiming(arr, rclosed)
Conform == conf
Accepted == TLCGet("stats").diameter - 1 = Len(Rec)
AcceptedMsg == IF Accepted THEN TRUE
               ELSE PrintT(<<"REJECTED at line", TLCGet("stats").diameter, Rec[TLCGet("stats").diameter]>>) /\ FALSE
====
