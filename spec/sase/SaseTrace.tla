---- MODULE SaseTrace ----
(* Trace validation / monitoring of recorded executions of the real matcher.
   Record kinds (ndjson, one per line):
     {"ev":"reset","prog":P}                                 start of a block: fresh engine with program P
     {"ev":"event","e":E,"matches":[{cap,kl}..],"nruns":n,"maxkl":k,"dropped":d,"evicted":v}
     {"ev":"panic","e":E}                                    processing E panicked
   The model (Sase!Process) runs alongside; `conf` says whether the recorded outputs and counters have
   equalled the model's so far.  The property-level invariants (named R...) are evaluated on the RECORDED outputs
   with the declarative reference operators only, so they stay meaningful when the code drifts from the model. *)
EXTENDS Sase, Json, IOUtils, TLCExt
Rec == ndJsonDeserialize(IOEnv.TRACE)
VARIABLES l, rout, rstat, conf, blk, panicked
tvars == <<vars, l, rout, rstat, conf, blk, panicked>>

EmptyProg == [steps |-> <<>>, part |-> FALSE, negs |-> <<>>, maxRuns |-> 100, strat |-> "drop", maxK |-> 20, maxEnum |-> 100]
ToM(r) == [cap |-> r.cap, kl |-> ToSet(r.kl)]
TInit == /\ l = 1 /\ prog = EmptyProg /\ stream = <<>> /\ out = <<>> /\ nextRunId = 1 /\ dropped = 0 /\ evicted = 0
         /\ runs = [k \in Keys \cup {"all"} |-> <<>>]
         /\ rout = <<>> /\ rstat = [nruns |-> 0, maxkl |-> 0] /\ conf = TRUE /\ blk = 0 /\ panicked = FALSE
IsEv(n) == l <= Len(Rec) /\ Rec[l].ev = n /\ l' = l + 1
P0(r) == [steps |-> r.steps, part |-> r.part, negs |-> r.negs, maxRuns |-> r.maxRuns, strat |-> r.strat, maxK |-> r.maxK, maxEnum |-> r.maxEnum]
TReset == /\ IsEv("reset")
          /\ prog' = P0(Rec[l].prog)
          /\ stream' = <<>> /\ out' = <<>> /\ nextRunId' = 1 /\ dropped' = 0 /\ evicted' = 0
          /\ runs' = [k \in Keys \cup {"all"} |-> <<>>]
          /\ rout' = <<>> /\ rstat' = [nruns |-> 0, maxkl |-> 0] /\ conf' = TRUE /\ blk' = blk + 1
          /\ UNCHANGED panicked
CapOnly == "caponly" \in DOMAIN Rec[l - 1 - Len(stream)]     \* flag on the block's reset record
SameRun(a, b) == \A k \in 1..Len(a.cap) : (k # KStep(prog)) => a.cap[k] = b.cap[k]
TEvent == /\ IsEv("event")
          /\ Process(Rec[l].e)
          /\ LET real == [i \in 1..Len(Rec[l].matches) |-> ToM(Rec[l].matches[i])]
                 model == UNION { out'[i] : i \in (Len(out)+1)..Len(out') }
                 \* the model emits every admissible combination; the code stops at maxEnum per completion
                 same == /\ ToSet(real) \subseteq model /\ Len(real) = Cardinality(ToSet(real))
                         /\ \A m \in model :
                               LET grp == { x \in model : SameRun(x, m) }
                                   rg  == { x \in ToSet(real) : SameRun(x, m) }
                               IN Cardinality(rg) = (IF Cardinality(grp) < prog.maxEnum THEN Cardinality(grp) ELSE prog.maxEnum)
                         /\ Rec[l].dropped = dropped' /\ Rec[l].evicted = evicted'
             IN /\ rout' = Append(rout, real)
                /\ conf' = (conf /\ same)
          /\ rstat' = [nruns |-> Rec[l].nruns, maxkl |-> Rec[l].maxkl]
          /\ UNCHANGED <<blk, panicked>>
TPanic == /\ IsEv("panic") /\ panicked' = TRUE
          /\ UNCHANGED <<vars, rout, rstat, conf, blk>>
TNext == TReset \/ TEvent \/ TPanic

\* ---------------- properties evaluated on the recorded outputs ----------------
RSound == \A i \in 1..Len(rout) : \A j \in 1..Len(rout[i]) : GenuineS(stream, rout[i][j])           \* C01
RCount == LET F[i \in 0..Len(rout)] == IF i = 0 THEN 0 ELSE F[i-1] + Len(rout[i]) IN F[Len(rout)]
RExact == ExactApplies(prog) =>                                                                       \* C02
            /\ UNION { { rout[i][j].cap : j \in 1..Len(rout[i]) } : i \in 1..Len(rout) } = ExpectedS(stream)
            /\ RCount = Cardinality(ExpectedS(stream))
\* C05: run bound, Kleene bound, enumeration bound (matches of one completion share every non-Kleene capture)
RBounded == /\ rstat.nruns <= prog.maxRuns
            /\ rstat.maxkl <= prog.maxK
            /\ \A i \in 1..Len(rout) : \A j \in 1..Len(rout[i]) :
                  Cardinality({ k \in 1..Len(rout[i]) : SameRun(rout[i][j], rout[i][k]) }) <= prog.maxEnum
            /\ ~panicked
\* the same without the Kleene-event clause (known finding: a trailing `all` ignores the cap)
RBoundedNoKl == /\ rstat.nruns <= prog.maxRuns
                /\ \A i \in 1..Len(rout) : \A j \in 1..Len(rout[i]) :
                      Cardinality({ k \in 1..Len(rout[i]) : SameRun(rout[i][j], rout[i][k]) }) <= prog.maxEnum
                /\ ~panicked
TrailingAll(p) == KStep(p) # 0 /\ KStep(p) = NSteps(p)
RBoundedKlNonTrailing == (~TrailingAll(prog)) => rstat.maxkl <= prog.maxK
\* C03: on A B^n C streams the completion emits exactly the admissible combinations (up to the caps), pairwise distinct
RKleene == (C03Shape(stream, prog) /\ Len(rout) = Len(stream)) =>
   LET v == ValidCombos(stream, prog)
       fin == rout[Len(rout)]
       kls == { fin[j].kl : j \in 1..Len(fin) }
       want == IF Cardinality(v) < prog.maxEnum THEN Cardinality(v) ELSE prog.maxEnum
   IN /\ \A i \in 1..(Len(rout)-1) : rout[i] = <<>>
      /\ kls \subseteq v
      /\ Cardinality(kls) = Len(fin)          \* pairwise distinct
      /\ Len(fin) = want
Conform == conf

Accepted == TLCGet("stats").diameter - 1 = Len(Rec)
AcceptedMsg == IF Accepted THEN TRUE
               ELSE PrintT(<<"REJECTED at line", TLCGet("stats").diameter, Rec[TLCGet("stats").diameter]>>) /\ FALSE
\* where an invariant fails, say in which block (the python side maps it back to the case)
BlockNo == blk
====
