---------------------------- MODULE Sase ----------------------------
(* Sequence matching with one optional Kleene (`all`) step, global negation, partitioning,
   backpressure and the Kleene caps.  Transcribed from sase.rs: process_shared,
   process_runs_shared (swap_remove loop), advance_run_shared, try_start_run_shared,
   handle_backpressure, enumerate_with_filter. *)
EXTENDS Naturals, Sequences, FiniteSets, TLC, SequencesExt, FiniteSetsExt

CONSTANTS Types, Keys, Vals, MaxLen, Programs, FlushDeviation, CapDeviation
(* program: [steps : Seq([type, f, all]), part, negs : Seq([type, f]), maxRuns, strat, maxK, maxEnum]
   negation clause filter f in {"none","ge1","eqfirst"}; "eqfirst": x = (first captured event).x
   f in {"none","ge1","eqprev","gtself","gtself_leprev"}; "gtself" only on an `all` step: x > previous-B.x (postponed);
   "gtself_leprev": x > previous-B.x and x <= (event of the step before).x - one conjunction, postponed as a whole
   strat in {"drop","oldest","least"}                                                        *)

EventUniverse == [type : Types, key : Keys, x : Vals]

VARIABLES prog, stream, runs, out, nextRunId, dropped, evicted
vars == <<prog, stream, runs, out, nextRunId, dropped, evicted>>
(* run: [id, k (index of last matched step), cap (seq: per matched non-Kleene step its event index, and for
   the Kleene step the index of the LAST accumulated event), kl (seq of accumulated Kleene event indices)] *)

NSteps(p) == Len(p.steps)
PartKey(p, e) == IF p.part THEN e.key ELSE "all"
\* does event e satisfy some .not(...) clause, for a run / match whose first captured event is s[first]
NegHitR(p, e, first, s) ==
  \E i \in 1..Len(p.negs) : LET c == p.negs[i] IN
     /\ e.type = c.type
     /\ CASE c.f = "none" -> TRUE [] c.f = "ge1" -> e.x >= 1 [] c.f = "eqfirst" -> e.x = s[first].x
NegType(p, e) == \E i \in 1..Len(p.negs) : e.type = p.negs[i].type

\* eager predicate of step k against event e, given run captures cap and stream s2
Eager(p, k, e, cap, s2) ==
  LET st == p.steps[k] IN
  /\ e.type = st.type
  /\ CASE st.f = "none"   -> TRUE
       [] st.f = "ge1"    -> e.x >= 1
       [] st.f = "eqprev" -> k > 1 /\ e.x = s2[cap[k-1]].x
       [] st.f = "gtself" -> TRUE                       \* postponed to enumeration
       [] st.f = "gtself_leprev" -> TRUE                \* x > previous-B.x and x <= (previous step).x : the whole conjunction is postponed

IsK(p, k) == k >= 1 /\ k <= NSteps(p) /\ p.steps[k].all
Postponed(p, k) == IsK(p, k) /\ p.steps[k].f \in {"gtself", "gtself_leprev"}
\* the postponed predicate on a consecutive pair (x1 = earlier B, x2 = later B); xa = x of the event captured by the step before the Kleene step
PairOK(f, x1, x2, xa) == IF f = "gtself_leprev" THEN x2 > x1 /\ x2 <= xa ELSE x2 > x1

\* valid Kleene combinations of kept events kl under the postponed predicate (consecutive pairs)
CombosF(kl, s2, postponed, f, xa) ==
  IF ~postponed THEN { kl }
  ELSE { c \in SUBSET ToSet(kl) :
           /\ c # {}
           /\ LET sq == SetToSortSeq(c, <) IN \A i \in 1..(Len(sq)-1) : PairOK(f, s2[sq[i]].x, s2[sq[i+1]].x, xa) }
Combos(kl, s2, postponed) == CombosF(kl, s2, postponed, "gtself", 0)

\* matches produced when run r completes at step NSteps (cap complete).  A match = [cap, kl]
\* where for postponed predicates kl is the chosen combination; otherwise all kept events.
Complete(p, r, s2) ==
  LET kstep == IF \E k \in 1..NSteps(p) : IsK(p, k) THEN CHOOSE k \in 1..NSteps(p) : IsK(p, k) ELSE 0 IN
  IF kstep # 0 /\ Postponed(p, kstep)
    THEN { [cap |-> [r.cap EXCEPT ![kstep] = Max(c)], kl |-> c] : c \in CombosF(r.kl, s2, TRUE, p.steps[kstep].f, s2[r.cap[kstep - 1]].x) }   \* the alias shows the combination's last event
    ELSE { [cap |-> r.cap, kl |-> ToSet(r.kl)] }

\* result of advancing one run with event e at index n:
\*  [kind |-> "keep"|"done"|"emitkeep"|"drop", run |-> r', ms |-> set of matches]
Advance(p, r, e, n, s2) ==
  LET k == r.k IN
  IF IsK(p, k) /\ Eager(p, k, e, r.cap, s2) THEN
       \* Kleene self-loop
       \* the cap is tested on run.kleene_capture, which a trailing `all` (epsilon to accept) never creates
       IF Len(r.kl) >= p.maxK /\ ~(CapDeviation /\ k = NSteps(p)) THEN [kind |-> "keep", run |-> r, ms |-> {}]
       ELSE LET r1 == [r EXCEPT !.kl = Append(@, n), !.cap = [@ EXCEPT ![k] = n]] IN
            IF k = NSteps(p) THEN [kind |-> "emitkeep", run |-> r1, ms |-> { [cap |-> r1.cap, kl |-> ToSet(r1.kl)] }]
            ELSE [kind |-> "keep", run |-> r1, ms |-> {}]
  ELSE IF k < NSteps(p) /\ Eager(p, k+1, e, r.cap, s2) THEN
       LET r1 == [r EXCEPT !.k = k+1, !.cap = Append(@, n),
                            !.kl = IF IsK(p, k+1) THEN <<n>> ELSE @] IN
       IF k+1 = NSteps(p) THEN
            IF IsK(p, k+1) THEN [kind |-> "emitkeep", run |-> r1, ms |-> { [cap |-> r1.cap, kl |-> ToSet(r1.kl)] }]
            ELSE [kind |-> "done", run |-> r1, ms |-> Complete(p, r1, s2)]
       ELSE [kind |-> "keep", run |-> r1, ms |-> {}]
  ELSE IF FlushDeviation /\ IsK(p, k) /\ k = NSteps(p) THEN
       \* trailing `all`: a non-matching event completes the parked run again
       [kind |-> "done", run |-> r, ms |-> { [cap |-> r.cap, kl |-> ToSet(r.kl)] }]
  ELSE [kind |-> "keep", run |-> r, ms |-> {}]

SwapRemove(rs, i) == IF i = Len(rs) THEN SubSeq(rs, 1, Len(rs)-1) ELSE [SubSeq(rs, 1, Len(rs)-1) EXCEPT ![i] = rs[Len(rs)]]

\* the swap_remove loop over the partition's run vector
RECURSIVE Loop(_, _, _, _, _, _, _)
Loop(p, rs, i, e, n, s2, acc) ==
  IF i > Len(rs) THEN [runs |-> rs, ms |-> acc]
  ELSE IF rs[i].inv THEN Loop(p, SwapRemove(rs, i), i, e, n, s2, acc)
  ELSE LET a == Advance(p, rs[i], e, n, s2) IN
       IF a.kind = "done"
         THEN LET last == rs[Len(rs)]
                  rs1 == IF i = Len(rs) THEN SubSeq(rs, 1, Len(rs)-1)
                         ELSE [SubSeq(rs, 1, Len(rs)-1) EXCEPT ![i] = last]
              IN Loop(p, rs1, i, e, n, s2, acc \o <<a.ms>>)
         ELSE Loop(p, [rs EXCEPT ![i] = a.run], i+1, e, n, s2, IF a.ms = {} THEN acc ELSE acc \o <<a.ms>>)

StartOk(p, e) == Eager(p, 1, e, <<>>, <<>>)

MinBy(rs, f(_)) == CHOOSE i \in 1..Len(rs) : \A j \in 1..Len(rs) : f(rs[i]) < f(rs[j]) \/ (f(rs[i]) = f(rs[j]) /\ i <= j)

\* the engine routes to a sequence stream only the event types its pattern mentions (steps and .not)
Relevant(p, e) == e.type \in { p.steps[k].type : k \in 1..NSteps(p) } \cup { p.negs[i].type : i \in 1..Len(p.negs) }

Process(e) ==
  IF ~Relevant(prog, e) THEN stream' = Append(stream, e) /\ UNCHANGED <<prog, runs, out, nextRunId, dropped, evicted>> ELSE
  LET n  == Len(stream) + 1
      s2 == Append(stream, e)
      pk == PartKey(prog, e)
      \* check_global_negations only marks; marked runs are swept when their partition is next processed
      runs1 == IF NegType(prog, e) THEN [k \in DOMAIN runs |-> [i \in 1..Len(runs[k]) |->
                   IF NegHitR(prog, e, runs[k][i].cap[1], s2) THEN [runs[k][i] EXCEPT !.inv = TRUE] ELSE runs[k][i]]] ELSE runs
      lp == Loop(prog, runs1[pk], 1, e, n, s2, <<>>)
      kept == lp.runs
      startok == StartOk(prog, e)
      newrun == [id |-> nextRunId, k |-> 1, cap |-> <<n>>, kl |-> IF IsK(prog, 1) THEN <<n>> ELSE <<>>, inv |-> FALSE]
      single == NSteps(prog) = 1
      \* a one-step pattern completes immediately in try_start? (run is created at step 1; completion happens on the
      \* NEXT event via the Accept check) -- excluded: programs have >= 2 steps
      full == Len(kept) >= prog.maxRuns
      afterBp ==
        IF ~startok THEN [rs |-> kept, d |-> 0, ev |-> 0]
        ELSE IF ~full THEN [rs |-> Append(kept, newrun), d |-> 0, ev |-> 0]
        ELSE CASE prog.strat = "drop"   -> [rs |-> kept, d |-> 1, ev |-> 0]
               [] prog.strat = "oldest" -> [rs |-> Append(SwapRemove(kept, MinBy(kept, LAMBDA r : r.id)), newrun), d |-> 0, ev |-> 1]
               [] prog.strat = "least"  -> [rs |-> Append(SwapRemove(kept, MinBy(kept, LAMBDA r : Len(r.cap) + (IF Len(r.kl) > 0 THEN Len(r.kl) - 1 ELSE 0))), newrun), d |-> 0, ev |-> 1]
  IN /\ stream' = s2
     /\ runs' = [runs1 EXCEPT ![pk] = afterBp.rs]
     /\ out' = out \o lp.ms
     /\ nextRunId' = nextRunId + (IF startok THEN 1 ELSE 0)
     /\ dropped' = dropped + afterBp.d /\ evicted' = evicted + afterBp.ev
     /\ UNCHANGED prog

Init == /\ prog \in Programs /\ stream = <<>> /\ out = <<>> /\ nextRunId = 1 /\ dropped = 0 /\ evicted = 0
        /\ runs = [k \in Keys \cup {"all"} |-> <<>>]
Next == Len(stream) < MaxLen /\ \E e \in EventUniverse : Process(e)


Spec == Init /\ [][Next]_vars

\* ============================ reference semantics (property level) ============================
\* These operators do not mention runs: they are the declarative meaning the properties talk about.
KStep(p) == IF \E k \in 1..NSteps(p) : IsK(p, k) THEN CHOOSE k \in 1..NSteps(p) : IsK(p, k) ELSE 0
NoAll(p) == KStep(p) = 0
NoNegBetweenS(s, lo, hi) == \A j \in (lo+1)..(hi-1) : ~NegHitR(prog, s[j], lo, s)
NoNegBetween(lo, hi) == NoNegBetweenS(stream, lo, hi)

\* C01: a match [cap, kl] over stream s is a genuine occurrence
GenuineS(s, m) ==
  LET cap == m.cap  ks == KStep(prog) IN
  /\ Len(cap) = NSteps(prog)
  /\ \A k \in 1..Len(cap) : cap[k] \in 1..Len(s)
  /\ \A k \in 1..(Len(cap)-1) : cap[k] < cap[k+1]
  /\ \A k \in 1..Len(cap) : Eager(prog, k, s[cap[k]], SubSeq(cap, 1, k-1), s)
  /\ \A k \in 1..Len(cap) : PartKey(prog, s[cap[k]]) = PartKey(prog, s[cap[1]])
  /\ (m.kl # {} => ks # 0)
  /\ \A j \in m.kl : /\ j \in 1..Len(s)
                     /\ s[j].type = prog.steps[ks].type
                     /\ PartKey(prog, s[j]) = PartKey(prog, s[cap[1]])
                     /\ cap[ks-1] < j /\ j <= cap[ks]
                     /\ (prog.steps[ks].f = "ge1" => s[j].x >= 1)
  /\ (ks # 0 /\ m.kl # {} /\ prog.steps[ks].f \in {"gtself", "gtself_leprev"} =>
        LET sq == SetToSortSeq(m.kl, <) IN \A i \in 1..(Len(sq)-1) : PairOK(prog.steps[ks].f, s[sq[i]].x, s[sq[i+1]].x, s[cap[ks-1]].x))
  /\ NoNegBetweenS(s, cap[1], cap[Len(cap)])
Genuine(m) == GenuineS(stream, m)
AllMatches == UNION { out[i] : i \in 1..Len(out) }
Soundness == \A m \in AllMatches : Genuine(m)

\* C02: programs without `all`: exactly the earliest completion of every start event
RECURSIVE ContS(_, _, _, _)
ContS(s, p, cap, from) ==
  IF Len(cap) = NSteps(p) THEN cap
  ELSE LET k == Len(cap) + 1
           cands == { j \in (from+1)..Len(s) :
                        /\ Eager(p, k, s[j], cap, s)
                        /\ PartKey(p, s[j]) = PartKey(p, s[cap[1]]) }
       IN IF cands = {} THEN <<>> ELSE LET j == Min(cands) IN ContS(s, p, Append(cap, j), j)
ExpectedS(s) ==
  { m \in { ContS(s, prog, <<i>>, i) : i \in { i \in 1..Len(s) : Eager(prog, 1, s[i], <<>>, s) } } :
      m # <<>> /\ NoNegBetweenS(s, m[1], m[Len(m)]) }
Expected == ExpectedS(stream)
OutCaps == [i \in 1..Len(out) |-> { m.cap : m \in out[i] }]
ExactApplies(p) == NoAll(p) /\ p.maxRuns >= Len(stream)   \* backpressure cannot have interfered
Exact == ExactApplies(prog) =>
           /\ UNION { OutCaps[i] : i \in 1..Len(out) } = Expected
           /\ \A i \in 1..Len(out) : Cardinality(out[i]) = 1          \* one match per completion
           /\ Len(out) = Cardinality(Expected)                         \* and none reported twice

\* C05
Bounded == /\ \A pk \in DOMAIN runs : Len(runs[pk]) <= prog.maxRuns
           /\ \A pk \in DOMAIN runs : \A i \in 1..Len(runs[pk]) : Len(runs[pk][i].kl) <= prog.maxK
           /\ \A i \in 1..Len(out) : Cardinality(out[i]) <= prog.maxEnum \/ prog.maxEnum >= 100

\* C03: streams A B^n C (or A B^n for a trailing `all`): reference = ValidCombos of the kept Bs
KeptBs(s, p) ==   \* first maxK events of the Kleene type that satisfy the eager filter, after the single start
  LET ks == KStep(p)
      bs == { j \in 2..Len(s) : Eager(p, ks, s[j], <<1>>, s) }
      sq == SetToSortSeq(bs, <)
  IN SubSeq(sq, 1, IF Len(sq) < p.maxK THEN Len(sq) ELSE p.maxK)
ValidCombos(s, p) == IF KeptBs(s, p) = <<>> THEN {} ELSE IF Postponed(p, KStep(p)) THEN CombosF(KeptBs(s, p), s, TRUE, p.steps[KStep(p)].f, s[1].x) ELSE { ToSet(KeptBs(s, p)) }
\* shape A B^n C with a 3-step program whose middle step is `all`, no negation, no partition cut
C03Shape(s, p) == /\ NSteps(p) = 3 /\ KStep(p) = 2 /\ p.negs = <<>> /\ p.steps[1].f = "none" /\ p.steps[3].f = "none"
                  /\ Len(s) >= 3 /\ s[1].type = p.steps[1].type /\ s[Len(s)].type = p.steps[3].type
                  /\ \A j \in 2..(Len(s)-1) : s[j].type = p.steps[2].type
                  /\ \A j \in 1..Len(s) : PartKey(p, s[j]) = PartKey(p, s[1])
KleeneExact == (C03Shape(stream, prog) /\ ~(CapDeviation /\ FALSE)) =>
   LET v == ValidCombos(stream, prog) IN
   IF v = {} \/ KeptBs(stream, prog) = <<>> THEN out = <<>>
   ELSE /\ Len(out) = 1
        /\ { m.kl : m \in out[1] } = v
        /\ Cardinality(out[1]) = Cardinality(v)
=====================================================================
