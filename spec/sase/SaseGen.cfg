CONSTANTS
  Types = {"A","B","C","N"}
  Keys = {"k1","k2"}
  Vals = {0,1,2}
  MaxLen = 9
  FlushDeviation = TRUE
  CapDeviation = TRUE
  Programs <- AllPrograms
INIT GInit
NEXT GNext
INVARIANT Emit
CHECK_DEADLOCK FALSE
