CONSTANTS
  Types = {"A","B","C","N"}
  Keys = {"k1","k2","k3"}
  Vals = {0,1,2}
  MaxLen = 100000
  FlushDeviation = TRUE
  CapDeviation = TRUE
  Programs = {}
INIT TInit
NEXT TNext
INVARIANT RSound
INVARIANT RExact
INVARIANT RBoundedNoKl
INVARIANT RBoundedKlNonTrailing
INVARIANT RKleene
INVARIANT Conform
POSTCONDITION AcceptedMsg
CHECK_DEADLOCK FALSE
