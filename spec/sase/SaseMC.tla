---- MODULE SaseMC ----
EXTENDS Sase
S(t, f, a) == [type |-> t, f |-> f, all |-> a]
\* sequence programs without `all` (C01, C02)
SeqSteps == { <<S("A","none",FALSE), S("B","none",FALSE)>>,
              <<S("A","ge1",FALSE), S("B","none",FALSE)>>,
              <<S("A","none",FALSE), S("B","eqprev",FALSE)>>,
              <<S("A","none",FALSE), S("A","none",FALSE)>>,
              <<S("A","none",FALSE), S("A","eqprev",FALSE)>>,
              <<S("A","none",FALSE), S("B","ge1",FALSE), S("C","none",FALSE)>>,
              <<S("A","none",FALSE), S("B","none",FALSE), S("A","none",FALSE)>>,
              <<S("A","ge1",FALSE), S("B","none",FALSE), S("C","eqprev",FALSE)>>,
              <<S("A","none",FALSE), S("B","eqprev",FALSE), S("B","eqprev",FALSE)>> }
\* programs with one `all` step (C03, C05)
KlSteps == { <<S("A","none",FALSE), S("B","none",TRUE), S("C","none",FALSE)>>,
             <<S("A","none",FALSE), S("B","ge1",TRUE), S("C","none",FALSE)>>,
             <<S("A","none",FALSE), S("B","gtself",TRUE), S("C","none",FALSE)>>,
             <<S("A","none",FALSE), S("B","gtself_leprev",TRUE), S("C","none",FALSE)>>,
             <<S("A","none",FALSE), S("B","none",TRUE)>> }
P(s, pt, ng, mr, st, mk, me) == [steps |-> s, part |-> pt, negs |-> ng, maxRuns |-> mr, strat |-> st, maxK |-> mk, maxEnum |-> me]
Ng(t, f) == [type |-> t, f |-> f]
NegSets == { <<>>, <<Ng("N","none")>>, <<Ng("N","ge1")>>, <<Ng("N","eqfirst"), Ng("N","ge1")>> }
SeqPrograms == { P(s, pt, ng, 100, "drop", 20, 100) : s \in SeqSteps, pt \in BOOLEAN, ng \in NegSets }
KlPrograms  == { P(s, pt, ng, 100, "drop", mk, 100) : s \in KlSteps, pt \in BOOLEAN, ng \in {<<>>, <<Ng("N","none")>>}, mk \in {2, 20} }
CapPrograms == { P(s, pt, <<>>, mr, st, mk, 100) : s \in SeqSteps \cup KlSteps, pt \in BOOLEAN, mr \in {1, 2}, st \in {"drop","oldest","least"}, mk \in {2, 20} }
AllPrograms == SeqPrograms \cup KlPrograms \cup CapPrograms
====
