CONSTANTS
  Types = {"A","B","C","N"}
  Keys = {"k1","k2"}
  Vals = {0,1}
  MaxLen = 4
  FlushDeviation = TRUE
  CapDeviation = FALSE
  Programs <- KlPrograms
INIT Init
NEXT Next
INVARIANT Soundness
INVARIANT Bounded
INVARIANT KleeneExact
CHECK_DEADLOCK FALSE
