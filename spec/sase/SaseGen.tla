---- MODULE SaseGen ----
(* Behaviour generator: the same Next as Sase plus a per-event history of the matches the model emits.
   Used exhaustively (tiny bound) and with -simulate; every completed behaviour is printed as one CASE line
   that the harness replays into the real SaseEngine / Engine. *)
EXTENDS SaseMC, Json
VARIABLE hist
gvars == <<vars, hist>>
Obs(m) == [cap |-> m.cap, kl |-> SetToSortSeq(m.kl, <)]
NewOut == UNION { out'[i] : i \in (Len(out)+1)..Len(out') }
GInit == Init /\ hist = <<>>
GNext == Next /\ hist' = Append(hist, SetToSeq({ Obs(m) : m \in NewOut }))
NRuns == [k \in { k \in DOMAIN runs : Len(runs[k]) > 0 } |-> Len(runs[k])]
Emit == (Len(stream) = MaxLen) =>
          PrintT(<<"CASE", ToJson([prog |-> prog, stream |-> stream, out |-> hist, nruns |-> NRuns,
                                    dropped |-> dropped, evicted |-> evicted,
                                    sound |-> Soundness, bounded |-> Bounded])>>)
====
