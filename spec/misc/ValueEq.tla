---- MODULE ValueEq ----
(* C40: runtime value equality is an equivalence consistent with hashing.
   Values are symbolic shapes (the harness builds the concrete varpulis_core::Value); Class gives the values that the
   documented semantics treat as the same (NaN = NaN, -0.0 = 0.0, maps are unordered) so that the equal pairs that
   matter are certainly among the enumerated ones.  TLC enumerates every ordered triple; the laws are checked on the
   implementation's `==` and `Hash`:  reflexive, symmetric, transitive, a = b => hash(a) = hash(b);  and the reference
   classes must be respected (same class => equal). *)
EXTENDS Naturals, Sequences, TLC, Json
Shapes == { "null", "true", "false", "i0", "i1", "imin", "f0", "fneg0", "f1", "nan", "nan2", "inf", "s_empty", "s_a", "ts0", "dur0",
            "arr_empty", "arr_i1", "arr_f1", "arr_nan", "arr_nan2", "arr_f0", "arr_fneg0", "arr_nested",
            "map_empty", "map_ab", "map_ba", "map_a", "map_ab_nan", "map_ba_nan2", "map_nested_ab", "map_nested_ba", "map_zero", "map_negzero",
            "map_anull_b", "map_cnull_b", "map_b_c2", "map_anull", "map_cnull", "arr_map_anull", "arr_map_cnull" }
Class(s) == CASE s \in {"nan", "nan2"} -> "NAN" [] s \in {"f0", "fneg0"} -> "ZERO" [] s \in {"arr_nan", "arr_nan2"} -> "ARRNAN"
              [] s \in {"arr_f0", "arr_fneg0"} -> "ARRZERO" [] s \in {"map_ab", "map_ba"} -> "MAPAB"
              [] s \in {"map_ab_nan", "map_ba_nan2"} -> "MAPABNAN" [] s \in {"map_nested_ab", "map_nested_ba"} -> "MAPNEST"
              [] s \in {"map_zero", "map_negzero"} -> "MAPZERO" [] OTHER -> s
VARIABLES a, b, c
Init == a \in Shapes /\ b \in Shapes /\ c \in Shapes
Next == UNCHANGED <<a, b, c>>
\* the reference classes form a partition (sanity of the spec itself)
ClassesPartition == (Class(a) = Class(b) /\ Class(b) = Class(c)) => Class(a) = Class(c)
Emit == PrintT(<<"CASE", ToJson([a |-> a, b |-> b, c |-> c, ab |-> Class(a) = Class(b), bc |-> Class(b) = Class(c)])>>)
====
