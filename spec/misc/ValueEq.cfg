INIT Init
NEXT Next
INVARIANT ClassesPartition
INVARIANT Emit
CHECK_DEADLOCK FALSE
