---- MODULE EventFile ----
(* C46: the preloading reader (EventFileParser::parse) and the streaming reader (StreamingEventReader) read the same
   events from the same file.  A file is a sequence of line forms; Meaning gives the event sequence the documented
   format denotes (types in order; directives, comments and blank lines produce nothing).  TLC enumerates every file
   of up to MaxLines lines; the harness renders each file to text and compares the two readers with each other
   (the property) and with Meaning (the reference, for the unambiguous forms). *)
EXTENDS Naturals, Sequences, TLC, Json
CONSTANT MaxLines
Forms == { "plain",        \* A { id: 1, x: 2.5, s: "a b" }
           "plain_semi",   \* A { id: 1 };
           "empty_body",   \* A { }
           "no_body",      \* A
           "batch",        \* BATCH 100
           "at_s",         \* @1s A { id: 1 }
           "at_ms",        \* @250ms A { id: 1 }
           "at_only",      \* @2s
           "jsonl",        \* {"event_type": "A", "id": 1}
           "at_jsonl",     \* @1s {"event_type": "A", "id": 1}
           "comment",      \* # a comment
           "comment2",     \* // a comment
           "blank",
           "indented",     \*    A { id: 1 }
           "nested",       \* A { a: [1, 2], m: { k: "v" } }
           "bad" }         \* A { id:
Produces(f) == f \in {"plain", "plain_semi", "empty_body", "no_body", "at_s", "at_ms", "jsonl", "at_jsonl", "indented", "nested"}
Rejects(f) == f = "bad"
Meaning(file) == SelectSeq(file, Produces)
VARIABLE file
Init == file \in UNION { [1..n -> Forms] : n \in 1..MaxLines }
Next == UNCHANGED file
Emit == PrintT(<<"CASE", ToJson([file |-> file, n |-> Len(Meaning(file)), rejects |-> \E i \in 1..Len(file) : Rejects(file[i])])>>)
====
