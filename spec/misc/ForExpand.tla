----------------------------- MODULE ForExpand -----------------------------
(* Top-level `for v in a..b:` blocks.  Items: [k |-> "decl", t |-> template, uses |-> set of vars]
   or [k |-> "loop", v, lo, hi, incl, body]  (depth <= 2).  Expand gives the hand-written copies. *)
EXTENDS Integers, Sequences, FiniteSets, TLC, Json
Templates == {"ctx", "stream", "multi"}
Decl(t, u) == [k |-> "decl", t |-> t, uses |-> u]
Ranges == { [lo |-> l, hi |-> h, incl |-> i] : l \in 0..1, h \in 0..3, i \in BOOLEAN }
Upper(r) == IF r.incl THEN r.hi ELSE r.hi - 1

\* expansion of a sequence of items under environment env (var |-> value)
RECURSIVE Expand(_, _)
Expand(items, env) ==
  IF items = <<>> THEN <<>>
  ELSE LET it == Head(items) IN
       (IF it.k = "decl" THEN << [t |-> it.t, vals |-> [v \in it.uses |-> env[v]]] >>
        ELSE LET RECURSIVE Iter(_)
                 Iter(x) == IF x > Upper(it.r) THEN <<>>
                            ELSE Expand(it.body, [w \in DOMAIN env \cup {it.v} |-> IF w = it.v THEN x ELSE env[w]]) \o Iter(x + 1)
             IN Iter(it.r.lo))
       \o Expand(Tail(items), env)

InnerBodies == { <<Decl(t, {"i", "j"})>> : t \in Templates } \cup { <<Decl("ctx", {"j"}), Decl("stream", {"i","j"})>> }
OuterBodies(r2) == { <<Decl(t, {"i"})>> : t \in Templates }
                   \cup { <<[k |-> "loop", v |-> "j", r |-> r2, body |-> b]>> : b \in InnerBodies }
                   \cup { <<Decl("ctx", {"i"}), [k |-> "loop", v |-> "j", r |-> r2, body |-> b]>> : b \in InnerBodies }
Programs == { <<Decl("ctx", {}), [k |-> "loop", v |-> "i", r |-> r1, body |-> b], Decl("stream", {})>> :
                 r1 \in Ranges, b \in UNION { OuterBodies(r2) : r2 \in Ranges } }
VARIABLE p
Init == p \in Programs
Next == UNCHANGED p
Emit == PrintT(<<"CASE", ToJson([prog |-> p, exp |-> Expand(p, [w \in {} |-> 0])])>>)
=============================================================================
