----------------------------- MODULE ForExpand -----------------------------
(* Top-level `for v in a..b:` blocks.  Items: [k |-> "decl", t |-> template, uses |-> set of vars]
   or [k |-> "loop", v, lo, hi, incl, body]  (depth <= 2).  Expand gives the hand-written copies. *)
EXTENDS Integers, Sequences, FiniteSets, TLC, Json
Templates == {"ctx", "stream", "multi"}
Decl(t, u) == [k |-> "decl", t |-> t, uses |-> u]
Ranges == { [lo |-> l, hi |-> h, incl |-> i] : l \in 0..1, h \in 0..3, i \in BOOLEAN }
Upper(r) == IF r.incl THEN r.hi ELSE r.hi - 1

\* expansion of a sequence of items under environment env (var |-> value)
RECURSIVE Expand(_, _)
Expand(items, env) ==
  IF items = <<>> THEN <<>>
  ELSE LET it == Head(items) IN
       (IF it.k = "decl" THEN << [t |-> it.t, vals |-> [v \in it.uses |-> env[v]]] >>
        ELSE LET RECURSIVE Iter(_)
                 Iter(x) == IF x > Upper(it.r) THEN <<>>
                            ELSE Expand(it.body, [w \in DOMAIN env \cup {it.v} |-> IF w = it.v THEN x ELSE env[w]]) \o Iter(x + 1)
             IN Iter(it.r.lo))
       \o Expand(Tail(items), env)

InnerBodies == { <<Decl(t, {"i", "j"})>> : t \in Templates } \cup { <<Decl("ctx", {"j"}), Decl("stream", {"i","j"})>> }
OuterBodies(r2) == { <<Decl(t, {"i"})>> : t \in Templates }
                   \cup { <<[k |-> "loop", v |-> "j", r |-> r2, body |-> b]>> : b \in InnerBodies }
                   \cup { <<Decl("ctx", {"i"}), [k |-> "loop", v |-> "j", r |-> r2, body |-> b]>> : b \in InnerBodies }
Programs1 == { <<Decl("ctx", {}), [k |-> "loop", v |-> "i", r |-> r1, body |-> b], Decl("stream", {})>> :
                 r1 \in Ranges, b \in UNION { OuterBodies(r2) : r2 \in Ranges } }
\* layout: a loop may carry its own indentation unit w (spaces; 1 stands for a tab); loops without w use 4.  Several loops in one
\* file - in sequence, or side by side inside one outer body - with different units must expand like each does alone.
Widths == {1, 2, 4, 8}
R2 == { [lo |-> 0, hi |-> 1, incl |-> TRUE], [lo |-> 1, hi |-> 3, incl |-> FALSE] }
L(v, r, b, w) == [k |-> "loop", v |-> v, r |-> r, body |-> b, w |-> w]
Programs2 == { <<L("i", r1, <<Decl(t1, {"i"})>>, w1), L("i", r2, <<Decl(t2, {"i"})>>, w2)>> :
                  r1 \in R2, r2 \in R2, t1 \in {"ctx", "stream"}, t2 \in {"ctx", "multi"}, w1 \in Widths, w2 \in Widths }
             \cup { <<L("i", r1, <<L("j", r2, <<Decl("ctx", {"i", "j"})>>, w1), L("j", r2, <<Decl("stream", {"i", "j"})>>, w2)>>, w0)>> :
                  r1 \in R2, r2 \in R2, w0 \in {2, 4}, w1 \in Widths, w2 \in Widths }
             \cup { <<L("i", r1, <<Decl("ctx", {"i"})>>, w1), Decl("ctx", {}), L("i", r2, <<L("j", r1, <<Decl("multi", {"i", "j"})>>, w2)>>, w1)>> :
                  r1 \in R2, r2 \in R2, w1 \in Widths, w2 \in Widths }
Programs == Programs1 \cup Programs2
VARIABLE p
Init == p \in Programs
Next == UNCHANGED p
Emit == PrintT(<<"CASE", ToJson([prog |-> p, exp |-> Expand(p, [w \in {} |-> 0])])>>)
=============================================================================
