---- MODULE RestJson ----
(* C44: event values keep type and content through the REST API.
   Values are symbolic JSON terms:  leaves are named representatives of the JSON value classes (integers at the i64 / u64 / 2^53
   boundaries, floats incl. integral, negative zero, subnormal and huge ones, strings, booleans, null), composites are arrays and
   objects of bounded width and depth.
   Two maps are modelled on these terms:
     In(j)   - the runtime value the ideal API hands to the pipeline: a tagged term  [t |-> type tag, c |-> content];
     Out(v)  - the JSON the ideal API returns for a runtime value.
   The ideal statement is  Out(In(j)) = j  and  Tag(In(j)) = the JSON type of j, for every j.  The faithful deviation (Faithful = TRUE)
   models what json_to_runtime_value does for integers above i64::MAX (they become floats: content and type change).
   TLC enumerates every term up to the bounds, checks the ideal round trip and prints each term with the predicted tag and output;
   the harness sends every term through POST .../events and .../events-batch of the real API (warp::test) into a pipeline that emits
   the value, its type_of and a typed computation, and compares the HTTP response with the prediction. *)
EXTENDS Naturals, Sequences, FiniteSets, TLC, Json
CONSTANTS Faithful, Width, Depth
IntLeaves == {"i0", "i1", "im1", "i2p53", "i2p53p1", "im2p53m1", "i64max", "i64min", "i64maxm1"}
BigLeaves == {"u2p63", "u2p63p1", "u64max"}                 \* JSON integers that do not fit an i64
FloatLeaves == {"f05", "fm0", "f1", "f1e300", "fmin", "f2p53p2", "fm25", "f01", "fpi"}
StrLeaves == {"sempty", "sa", "suni", "squote", "snum", "snul"}
OtherLeaves == {"null", "true", "false"}
Leaves == IntLeaves \cup BigLeaves \cup FloatLeaves \cup StrLeaves \cup OtherLeaves
Keys == {"a", "b"}
JsonType(l) == IF l \in IntLeaves \cup BigLeaves THEN "int" ELSE IF l \in FloatLeaves THEN "float"
               ELSE IF l \in StrLeaves THEN "string" ELSE IF l = "null" THEN "null" ELSE "bool"
\* terms: [k |-> "leaf", l |-> leaf] | [k |-> "arr", e |-> Seq(term)] | [k |-> "obj", m |-> [subset of Keys -> term]]
Leaf(l) == [k |-> "leaf", l |-> l]
RECURSIVE Terms(_)
Terms(d) == IF d = 0 THEN {Leaf(l) : l \in Leaves}
            ELSE LET S == Terms(d - 1)
                     Arr == UNION {[1..n -> S] : n \in 0..Width}
                     Obj == UNION {[ks -> S] : ks \in SUBSET Keys}
                 IN S \cup {[k |-> "arr", e |-> a] : a \in Arr} \cup {[k |-> "obj", m |-> o] : o \in Obj}
\* the runtime side: tag + content, content again a term (leaves keep their name when the content is exact)
FloatOfBig(l) == CASE l = "u2p63" -> "f2p63" [] l = "u2p63p1" -> "f2p63" [] l = "u64max" -> "f2p64"
RECURSIVE In(_)
In(j) == IF j.k = "leaf"
         THEN IF Faithful /\ j.l \in BigLeaves THEN [t |-> "float", c |-> Leaf(FloatOfBig(j.l))]
              ELSE [t |-> JsonType(j.l), c |-> j]
         ELSE IF j.k = "arr" THEN [t |-> "array", c |-> [k |-> "arr", e |-> [i \in DOMAIN j.e |-> In(j.e[i]).c]]]
         ELSE [t |-> "map", c |-> [k |-> "obj", m |-> [x \in DOMAIN j.m |-> In(j.m[x]).c]]]
Out(v) == v.c
TopTag(j) == IF j.k = "leaf" THEN JsonType(j.l) ELSE IF j.k = "arr" THEN "array" ELSE "map"
RoundTrip(j) == Out(In(j)) = j /\ In(j).t = TopTag(j)
RECURSIVE HasBig(_)
HasBig(j) == IF j.k = "leaf" THEN j.l \in BigLeaves
             ELSE IF j.k = "arr" THEN \E i \in DOMAIN j.e : HasBig(j.e[i])
             ELSE \E x \in DOMAIN j.m : HasBig(j.m[x])
\* deep nesting: a leaf under d containers (all arrays, all objects, alternating); "bounded depth" is bounded by the JSON parser's
\* recursion limit (128), not by a small number
RECURSIVE Wrap(_, _, _)
Wrap(t, d, shape) == IF d = 0 THEN t
                     ELSE LET inner == Wrap(t, d - 1, shape)
                              arr == shape = "arr" \/ (shape = "alt" /\ d % 2 = 0)
                          IN IF arr THEN [k |-> "arr", e |-> <<inner>>] ELSE [k |-> "obj", m |-> [x \in {"a"} |-> inner]]
TowerDepths == {2, 3, 7, 15, 16, 17, 31, 32, 33, 48, 64, 65}
\* towers are carried as descriptors (the case file would otherwise nest deeper than a JSON reader accepts) and expanded for the maps
Towers == {[k |-> "tower", l |-> l, d |-> d, sh |-> sh] : l \in {"i1", "i64max", "f05", "suni", "null", "true"}, d \in TowerDepths, sh \in {"arr", "obj", "alt"}}
X(t) == IF t.k = "tower" THEN Wrap(Leaf(t.l), t.d, t.sh) ELSE t
VARIABLE j
Init == j \in Terms(Depth) \cup Towers
Next == UNCHANGED j
\* design level: the ideal maps round-trip everything; the faithful ones exactly everything without a big integer
Design == IF Faithful THEN (RoundTrip(X(j)) <=> ~HasBig(X(j))) ELSE RoundTrip(X(j))
Case == PrintT(<<"CASE", ToJson([term |-> j, tag |-> In(X(j)).t, out |-> IF j.k = "tower" THEN j ELSE Out(In(j)), big |-> HasBig(X(j))])>>)
====
