CONSTANTS Faithful = TRUE
Width = 2
Depth = 1
INIT Init
NEXT Next
INVARIANT Design
INVARIANT Case
CHECK_DEADLOCK FALSE
