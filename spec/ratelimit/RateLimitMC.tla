---- MODULE RateLimitMC ----
EXTENDS RateLimit, Json
Emit == (nreq = MaxReq) => PrintT(<<"CASE", ToJson([rate |-> rate, burst |-> burst, cap |-> Cap, hist |-> hist])>>)
StateView == <<rate, burst, now, bucket, epoch, nreq>>
====
