---- MODULE RateLimitTrace ----
(* {"ev":"reset","rate":r,"burst":b}   {"ev":"tick","t":ms}   {"ev":"check","c":client,"t":ms,"ok":b,"retry_ms":n (-1 = none),"panic":b} *)
EXTENDS RateLimitMC, IOUtils, TLCExt
Rec == ndJsonDeserialize(IOEnv.TRACE)
VARIABLES l, rhist, conf, fin
tvars == <<vars, l, rhist, conf, fin>>
IsEv(n) == l <= Len(Rec) /\ Rec[l].ev = n /\ l' = l + 1
B0 == [c \in Clients |-> [tracked |-> FALSE, tok |-> 0, last |-> 0]]
TInit == /\ rate = 1 /\ burst = 1 /\ now = 0 /\ nreq = 0 /\ hist = <<>> /\ bucket = B0 /\ epoch = [c \in Clients |-> 0]
         /\ l = 1 /\ rhist = <<>> /\ conf = TRUE /\ fin = TRUE
TReset == /\ IsEv("reset") /\ rate' = Rec[l].rate /\ burst' = Rec[l].burst /\ now' = 0 /\ nreq' = 0 /\ hist' = <<>> /\ bucket' = B0
          /\ epoch' = [c \in Clients |-> 0] /\ rhist' = <<>> /\ conf' = TRUE /\ fin' = TRUE
TTick == /\ IsEv("tick") /\ now' = Rec[l].t /\ UNCHANGED <<rate, burst, nreq, hist, bucket, epoch, rhist, conf, fin>>
TCheck == /\ IsEv("check")
          /\ Check(Rec[l].c)
          \* the real verdict is recorded with the MODEL's tracking epoch (eviction is deterministic and conformance-checked)
          /\ rhist' = Append(rhist, [c |-> Rec[l].c, t |-> Rec[l].t, ok |-> Rec[l].ok, ep |-> hist'[Len(hist')].ep])
          /\ conf' = (conf /\ Rec[l].ok = hist'[Len(hist')].ok)
          /\ fin' = (fin /\ ~Rec[l].panic /\ (~Rec[l].ok => Rec[l].retry_ms >= 0))
TNext == TReset \/ TTick \/ TCheck
RBound == PBound(rhist, rate, burst)
RFinite == fin
Conform == conf
Accepted == TLCGet("stats").diameter - 1 = Len(Rec)
AcceptedMsg == IF Accepted THEN TRUE
               ELSE PrintT(<<"REJECTED at line", TLCGet("stats").diameter, Rec[TLCGet("stats").diameter]>>) /\ FALSE
====
