----------------------------- MODULE RateLimit -----------------------------
(* Per-client token bucket with eviction of the least recently updated client (crates/varpulis-cluster/src/rate_limit.rs).
   Time in ms, tokens in milli-tokens.  The configuration (rate per second, burst) is chosen in Init, including the
   degenerate ones the constructor accepts (rate 0, burst 0).
   C30: within one tracking epoch of a client the number of admitted requests in any interval [t1, t2] is at most
   burst + rate * (t2 - t1); the limiter never panics; a rejection carries a finite retry-after. *)
EXTENDS Integers, Sequences, FiniteSets, TLC
CONSTANTS Clients, Rates, Bursts, Cap, Steps, MaxReq, MaxTime

VARIABLES rate, burst, now, bucket,   \* client |-> [tracked, tok, last]
          hist,          \* seq of [c, t, ok, ep]
          epoch, nreq
vars == <<rate, burst, now, bucket, hist, epoch, nreq>>

Init == /\ rate \in Rates /\ burst \in Bursts
        /\ now = 0 /\ nreq = 0 /\ hist = <<>>
        /\ bucket = [c \in Clients |-> [tracked |-> FALSE, tok |-> 0, last |-> 0]]
        /\ epoch = [c \in Clients |-> 0]

Tick == \E d \in Steps : now + d <= MaxTime /\ now' = now + d /\ hist' = Append(hist, [c |-> "tick", t |-> now + d, ok |-> FALSE, ep |-> 0])
                         /\ UNCHANGED <<rate, burst, bucket, epoch, nreq>>
Min2(a, b) == IF a < b THEN a ELSE b
Tracked == {c \in Clients : bucket[c].tracked}

Check(c) ==
  /\ nreq < MaxReq /\ nreq' = nreq + 1
  /\ LET evict == ~bucket[c].tracked /\ Cardinality(Tracked) >= Cap
         victim == IF evict THEN CHOOSE v \in Tracked : \A w \in Tracked : bucket[v].last <= bucket[w].last ELSE c
         b0 == IF evict THEN [bucket EXCEPT ![victim].tracked = FALSE] ELSE bucket
         fresh == ~bucket[c].tracked
         cur == IF fresh THEN [tracked |-> TRUE, tok |-> burst * 1000, last |-> now] ELSE b0[c]
         refilled == Min2(burst * 1000, cur.tok + (now - cur.last) * rate)
         ok == refilled >= 1000
     IN /\ bucket' = [b0 EXCEPT ![c] = [tracked |-> TRUE, tok |-> IF ok THEN refilled - 1000 ELSE refilled, last |-> now]]
        /\ epoch' = IF fresh THEN [epoch EXCEPT ![c] = @ + 1] ELSE epoch
        /\ hist' = Append(hist, [c |-> c, t |-> now, ok |-> ok, ep |-> (IF fresh THEN epoch[c] + 1 ELSE epoch[c])])
  /\ UNCHANGED <<now, rate, burst>>

Next == Tick \/ \E c \in Clients : Check(c)
Spec == Init /\ [][Next]_vars

\* the bound over an arbitrary history h of [c, t, ok, ep] records
Admitted(h, c, ep, t1, t2) == Cardinality({ i \in 1..Len(h) : h[i].c = c /\ h[i].ep = ep /\ h[i].ok /\ h[i].t >= t1 /\ h[i].t <= t2 })
PBound(h, r, b) ==
  \A i, j \in 1..Len(h) :
     (i <= j /\ h[i].c # "tick" /\ h[i].c = h[j].c /\ h[i].ep = h[j].ep) =>
        1000 * Admitted(h, h[i].c, h[i].ep, h[i].t, h[j].t) <= 1000 * b + r * (h[j].t - h[i].t)
Bound == PBound(hist, rate, burst)
=============================================================================
