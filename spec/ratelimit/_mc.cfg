CONSTANTS Clients = {"a","b"} Rates = {0,2} Bursts = {0,1,2} Cap = 1 Steps = {250, 500, 1000} MaxReq = 6 MaxTime = 3000
INIT Init
NEXT Next
INVARIANT Bound
CHECK_DEADLOCK FALSE
