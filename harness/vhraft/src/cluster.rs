//! C37: a 3-node in-process cluster (real openraft, real varpulis stores / state machine / HTTP transport on loopback) under a seeded
//! fault schedule; every apply is recorded by hook H10; the trace is validated by TLC against spec/raft/ReplLog.tla.
//! Faults: each node sits behind a TCP forwarder (its membership address) that can pass, cut, drop or delay inbound connections;
//! nodes on persistent storage can crash and restart.
use crate::Report;
use serde_json::{json, Value as J};
use std::collections::BTreeMap;
use std::sync::atomic::{AtomicU16, AtomicU8, Ordering};
use std::sync::{Arc, Mutex};
use std::time::{Duration, Instant};
use tokio::io::AsyncWriteExt;
use tokio::net::{TcpListener, TcpStream};
use varpulis_cluster::raft::{verif_trace, ClusterCommand, RaftBootstrapResult};
use varpulis_cluster::worker::WorkerCapacity;

const PASS: u8 = 0; const CUT: u8 = 1; const DROP: u8 = 2; const DELAY: u8 = 3;

struct Proxy { port: u16, target: Arc<AtomicU16>, mode: Arc<AtomicU8>, conns: Arc<Mutex<Vec<tokio::task::JoinHandle<()>>>> }
async fn proxy(seed: u64) -> Proxy {
    let l = TcpListener::bind("127.0.0.1:0").await.unwrap();
    let port = l.local_addr().unwrap().port();
    let target = Arc::new(AtomicU16::new(0));
    let mode = Arc::new(AtomicU8::new(PASS));
    let conns: Arc<Mutex<Vec<tokio::task::JoinHandle<()>>>> = Arc::new(Mutex::new(vec![]));
    let (t2, m2, c2) = (target.clone(), mode.clone(), conns.clone());
    tokio::spawn(async move {
        let mut n = seed;
        loop {
            let Ok((mut inb, _)) = l.accept().await else { break };
            n = n.wrapping_mul(6364136223846793005).wrapping_add(1442695040888963407);
            let m = m2.load(Ordering::SeqCst);
            if m == CUT || (m == DROP && (n >> 33) % 2 == 0) { let _ = inb.shutdown().await; continue; }
            let tp = t2.load(Ordering::SeqCst);
            let h = tokio::spawn(async move {
                if m == DELAY { tokio::time::sleep(Duration::from_millis(300)).await; }
                if let Ok(mut out) = TcpStream::connect(("127.0.0.1", tp)).await { let _ = tokio::io::copy_bidirectional(&mut inb, &mut out).await; }
            });
            c2.lock().unwrap().push(h);
        }
    });
    Proxy { port, target, mode, conns }
}
impl Proxy {
    fn set(&self, m: u8) { self.mode.store(m, Ordering::SeqCst); if m != PASS { for h in self.conns.lock().unwrap().drain(..) { h.abort(); } } }
}

struct Node { boot: RaftBootstrapResult, stop: Option<tokio::sync::oneshot::Sender<()>>, inc: u64 }
async fn start_node(id: u64, addrs: &[String], dir: Option<&str>, px: &Proxy, inc: u64) -> Node {
    let boot = match dir {
        Some(d) => varpulis_cluster::raft::bootstrap_persistent(id, addrs, None, d).await.expect("bootstrap_persistent"),
        None => varpulis_cluster::raft::bootstrap(id, addrs, None).await.expect("bootstrap"),
    };
    let routes = varpulis_cluster::raft::routes::raft_routes(boot.raft.clone(), None);
    let (tx, rx) = tokio::sync::oneshot::channel::<()>();
    let (addr, fut) = warp::serve(routes).bind_with_graceful_shutdown(([127, 0, 0, 1], 0), async { let _ = rx.await; });
    tokio::spawn(fut);
    px.target.store(addr.port(), Ordering::SeqCst);
    Node { boot, stop: Some(tx), inc }
}
fn who(n: &Node) -> usize { Arc::as_ptr(&n.boot.shared_state) as usize }
fn digest(s: &str) -> u64 { use std::hash::{Hash, Hasher}; let mut h = std::collections::hash_map::DefaultHasher::new(); s.hash(&mut h); h.finish() % 1_000_000_007 }

struct Rng(u64);
impl Rng { fn next(&mut self, n: u64) -> u64 { self.0 = self.0.wrapping_mul(6364136223846793005).wrapping_add(1442695040888963407); (self.0 >> 33) % n } }

/// one scenario; returns the trace records
async fn scenario(seed: u64, persistent: bool, steps: usize, rep: &mut Report) -> Vec<J> {
    let _ = verif_trace::take();
    let mut rng = Rng(seed);
    let tmp = tempfile::tempdir().unwrap();
    let dir = tmp.path().to_str().unwrap().to_string();
    let mut proxies = vec![];
    for i in 0..3 { proxies.push(proxy(seed + i).await); }
    let addrs: Vec<String> = proxies.iter().map(|p| format!("http://127.0.0.1:{}", p.port)).collect();
    let mut nodes: BTreeMap<u64, Option<Node>> = BTreeMap::new();
    for id in 1..=3u64 { nodes.insert(id, Some(start_node(id, &addrs, if persistent { Some(dir.as_str()) } else { None }, &proxies[(id - 1) as usize], 1).await)); }
    let mut trace = vec![json!({"ev": "reset", "seed": seed, "persistent": persistent})];
    let mut whomap: BTreeMap<usize, (u64, u64)> = BTreeMap::new();
    for (id, n) in &nodes { whomap.insert(who(n.as_ref().unwrap()), (*id, 1)); }
    let mut ncmd = 0u64;
    let mut acked = 0u64;
    let flush = |trace: &mut Vec<J>, whomap: &BTreeMap<usize, (u64, u64)>| {
        for (w, idx, term, text) in verif_trace::take() {
            if let Some((node, inc)) = whomap.get(&w) { trace.push(json!({"ev": "apply", "node": node, "inc": inc, "index": idx, "term": term, "digest": digest(&text)})); }
        }
    };
    let leader_of = |nodes: &BTreeMap<u64, Option<Node>>| -> Option<u64> {
        for (id, n) in nodes { if let Some(n) = n { let m = n.boot.raft.metrics().borrow().clone(); if m.current_leader == Some(*id) && m.state == openraft::ServerState::Leader { return Some(*id); } } }
        None
    };
    // wait for the first leader
    let t0 = Instant::now();
    while leader_of(&nodes).is_none() && t0.elapsed() < Duration::from_secs(30) { tokio::time::sleep(Duration::from_millis(50)).await; }
    for _ in 0..steps {
        match rng.next(10) {
            0 => { let j = rng.next(3) as usize; let m = [CUT, DROP, DELAY][rng.next(3) as usize]; proxies[j].set(m); trace.push(json!({"ev": "fault", "node": j + 1, "mode": m})); }
            1 => { for p in &proxies { p.set(PASS); } trace.push(json!({"ev": "heal"})); }
            2 if persistent => {
                // crash a node (at most one down at a time), or restart the one that is down
                let down: Vec<u64> = nodes.iter().filter(|(_, n)| n.is_none()).map(|(i, _)| *i).collect();
                if let Some(id) = down.first() {
                    let inc = trace.iter().filter(|r| r["ev"] == "crash" && r["node"] == json!(id)).count() as u64 + 1;
                    let n = start_node(*id, &addrs, Some(dir.as_str()), &proxies[(*id - 1) as usize], inc).await;
                    whomap.insert(who(&n), (*id, inc));
                    nodes.insert(*id, Some(n));
                    trace.push(json!({"ev": "restart", "node": id, "inc": inc}));
                } else {
                    let id = 1 + rng.next(3);
                    if let Some(mut n) = nodes.insert(id, None).flatten() {
                        let _ = n.boot.raft.shutdown().await;
                        if let Some(s) = n.stop.take() { let _ = s.send(()); }
                        flush(&mut trace, &whomap);
                        trace.push(json!({"ev": "crash", "node": id}));
                        let _ = n.inc;
                    }
                }
            }
            _ => {
                // a client write on whichever node currently believes it is the leader
                if let Some(l) = leader_of(&nodes) {
                    ncmd += 1;
                    let cmd = ClusterCommand::RegisterWorker { id: format!("k{ncmd}"), address: "a".into(), api_key: "k".into(), capacity: WorkerCapacity { cpu_cores: 1, pipelines_running: 0, max_pipelines: 1 } };
                    let raft = nodes[&l].as_ref().unwrap().boot.raft.clone();
                    let r = tokio::time::timeout(Duration::from_secs(4), raft.client_write(cmd)).await;
                    flush(&mut trace, &whomap);
                    if let Ok(Ok(resp)) = r { acked += 1; trace.push(json!({"ev": "ack", "cmd": ncmd, "index": resp.log_id.index})); }
                    else { trace.push(json!({"ev": "noack", "cmd": ncmd})); }
                } else { tokio::time::sleep(Duration::from_millis(400)).await; }
            }
        }
        tokio::time::sleep(Duration::from_millis(30 + rng.next(120))).await;
        flush(&mut trace, &whomap);
    }
    // heal, restart what is down, wait until every node has applied the same position twice in a row
    for p in &proxies { p.set(PASS); }
    let down: Vec<u64> = nodes.iter().filter(|(_, n)| n.is_none()).map(|(i, _)| *i).collect();
    for id in down {
        let inc = trace.iter().filter(|r| r["ev"] == "crash" && r["node"] == json!(id)).count() as u64 + 1;
        let n = start_node(id, &addrs, Some(dir.as_str()), &proxies[(id - 1) as usize], inc).await;
        whomap.insert(who(&n), (id, inc));
        nodes.insert(id, Some(n));
        trace.push(json!({"ev": "restart", "node": id, "inc": inc}));
    }
    trace.push(json!({"ev": "heal"}));
    let t0 = Instant::now();
    let mut last: Option<Vec<Option<u64>>> = None;
    let mut quiet = false;
    while t0.elapsed() < Duration::from_secs(40) {
        tokio::time::sleep(Duration::from_millis(300)).await;
        let cur: Vec<Option<u64>> = nodes.values().map(|n| n.as_ref().unwrap().boot.raft.metrics().borrow().last_applied.map(|l| l.index)).collect();
        let same = cur.iter().all(|x| x == &cur[0]) && cur[0].is_some() && leader_of(&nodes).is_some();
        if same && last.as_ref() == Some(&cur) { quiet = true; break; }
        last = Some(cur);
    }
    flush(&mut trace, &whomap);
    for (id, n) in &nodes {
        let n = n.as_ref().unwrap();
        let applied = n.boot.raft.metrics().borrow().last_applied.map(|l| l.index).unwrap_or(0);
        let st = n.boot.shared_state.read().unwrap();
        let mut ws: Vec<u64> = st.workers.keys().filter_map(|k| k[1..].parse().ok()).collect();
        ws.sort();
        trace.push(json!({"ev": "final", "node": id, "applied": applied, "workers": ws, "quiet": quiet}));
    }
    rep.count("writes_attempted", ncmd);
    rep.count("writes_acked", acked);
    if !quiet { rep.count("scenarios_not_quiescent_in_40s", 1); }
    for n in nodes.values_mut() { if let Some(mut n) = n.take() { let _ = n.boot.raft.shutdown().await; if let Some(s) = n.stop.take() { let _ = s.send(()); } } }
    trace
}

/// args: report.json trace.ndjson nscenarios steps
pub fn record(rt: &tokio::runtime::Runtime, args: &[String]) {
    let mut rep = Report::default();
    let n: u64 = args[2].parse().unwrap();
    let steps: usize = args[3].parse().unwrap();
    let seed: u64 = std::env::var("VERIF_SEED").ok().and_then(|s| s.parse().ok()).unwrap_or(1);
    let mut all = vec![];
    for i in 0..n {
        let persistent = i % 2 == 1;
        let t = rt.block_on(scenario(seed * 1000 + i, persistent, steps, &mut rep));
        let acks = t.iter().filter(|r| r["ev"] == "ack").count();
        rep.case(&json!({"scenario": i, "persistent": persistent, "records": t.len()}), acks > 0 && t.iter().any(|r| r["ev"] == "fault" || r["ev"] == "crash"));
        all.extend(t);
    }
    std::fs::write(&args[1], all.iter().map(|r| r.to_string()).collect::<Vec<_>>().join("\n") + "\n").unwrap();
    rep.write(&args[0]);
}
