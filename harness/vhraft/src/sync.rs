use serde_json::Value as J;
pub fn replay(_rt: &tokio::runtime::Runtime, _cases: &str, _report: &str) { let _: Option<J> = None; unimplemented!() }
