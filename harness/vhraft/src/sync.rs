//! C38: spec/raft/CoordSync.tla histories on a real single-node Raft coordinator: operations through the real REST handlers
//! (warp::test on cluster_routes), a loopback mock worker for the deploy / failover HTTP calls, and after every operation the
//! coordinator's view before and after Coordinator::sync_from_raft.
use crate::{catch, read_cases, Report};
use serde_json::{json, Value as J};
use std::collections::BTreeMap;
use std::sync::Arc;
use std::time::{Duration, Instant};
use varpulis_cluster::api::{cluster_routes, handle_rejection};
use varpulis_cluster::{Coordinator, RbacConfig, WorkerId, WorkerStatus};
use warp::Filter;

type Shared = Arc<tokio::sync::RwLock<Coordinator>>;

async fn mock_worker() -> String {
    let deploy = warp::path!("api" / "v1" / "pipelines").and(warp::post()).and(warp::body::json::<J>())
        .map(|b: J| warp::reply::with_status(warp::reply::json(&json!({"id": format!("id-{}", b["name"].as_str().unwrap_or("p")), "name": b["name"], "status": "running"})), warp::http::StatusCode::CREATED));
    let other = warp::path("api").and(warp::any()).map(|| warp::reply::json(&json!({})));
    let (addr, fut) = warp::serve(deploy.or(other)).bind_ephemeral(([127, 0, 0, 1], 0));
    tokio::spawn(fut);
    format!("http://{addr}")
}

/// projection of the coordinator's view onto CoordSync.tla's state
fn project(c: &Coordinator) -> J {
    let w = |id: &str| match c.workers.get(&WorkerId(id.into())) {
        None => json!({"reg": false, "status": "none", "has": false}),
        Some(n) => json!({"reg": true, "status": match n.status { WorkerStatus::Ready => "ready", WorkerStatus::Unhealthy => "unhealthy", WorkerStatus::Draining => "draining", _ => "other" }, "has": !n.assigned_pipelines.is_empty()}),
    };
    let grp = match c.pipeline_groups.values().next() {
        None => json!({"exists": false, "on": "none"}),
        Some(g) => json!({"exists": true, "on": g.placements.values().next().map(|d| d.worker_id.0.clone()).unwrap_or("none".into())}),
    };
    let conn = c.connectors.get("c1").map(|x| if x.params.get("host").map(|h| h == "h1").unwrap_or(false) { 1 } else { 2 }).unwrap_or(0);
    json!({"workers": {"w1": w("w1"), "w2": w("w2")}, "grp": grp, "conn": conn})
}
fn diff(a: &J, b: &J) -> Vec<String> {
    let mut v = vec![];
    for w in ["w1", "w2"] {
        if a["workers"][w]["status"] != b["workers"][w]["status"] { v.push(format!("{w}.status")); }
        if a["workers"][w]["has"] != b["workers"][w]["has"] { v.push(format!("{w}.assigned")); }
        if a["workers"][w]["reg"] != b["workers"][w]["reg"] { v.push(format!("{w}.registered")); }
    }
    if a["grp"] != b["grp"] { v.push("g.placement".into()); }
    if a["conn"] != b["conn"] { v.push("c.connector".into()); }
    v.sort();
    v
}

async fn run_history(hist: &[J], rep: &mut Report, case_no: usize) {
    let worker_addr = mock_worker().await;
    // a single-node Raft cluster (real openraft, real MemStore / state machine); no peers, so no RPC server is needed
    let boot = varpulis_cluster::raft::bootstrap(1, &["http://127.0.0.1:1".to_string()], None).await.expect("raft bootstrap");
    let t0 = Instant::now();
    loop {
        let m = boot.raft.metrics().borrow().clone();
        if m.current_leader == Some(1) { break; }
        if t0.elapsed() > Duration::from_secs(90) { eprintln!("TOOL: single-node raft did not elect itself within 90 s (machine overloaded?)"); std::process::exit(3); }
        tokio::time::sleep(Duration::from_millis(50)).await;
    }
    let mut peers = BTreeMap::new();
    peers.insert(1u64, "http://127.0.0.1:1".to_string());
    let mut co = Coordinator::with_raft(boot.raft.clone(), boot.shared_state.clone(), peers, None);
    co.update_raft_role();
    let coord: Shared = Arc::new(tokio::sync::RwLock::new(co));
    let routes = cluster_routes(coord.clone(), Arc::new(RbacConfig::disabled()), None).recover(handle_rejection);
    let b = "/api/v1/cluster";
    for (n, h) in hist.iter().enumerate() {
        let a = &h["a"];
        let op = a["op"].as_str().unwrap();
        let small = json!({"history": hist[..=n].iter().map(|x| x["a"].clone()).collect::<Vec<_>>()});
        let w = a["w"].as_str().unwrap_or("");
        let mut status = 200u16;
        let mut req = |m: &str, p: String, body: Option<J>| { let mut r = warp::test::request().method(m).path(&p); if let Some(b) = body { r = r.json(&b); } r };
        match op {
            "register" => status = req("POST", format!("{b}/workers/register"), Some(json!({"worker_id": w, "address": worker_addr, "api_key": "k", "capacity": {"cpu_cores": 4, "pipelines_running": 0, "max_pipelines": 10}}))).reply(&routes).await.status().as_u16(),
            "deregister" => status = req("DELETE", format!("{b}/workers/{w}"), None).reply(&routes).await.status().as_u16(),
            "heartbeat" => {
                let running = coord.read().await.workers.get(&WorkerId(w.into())).map(|n| n.assigned_pipelines.len()).unwrap_or(0);
                status = req("POST", format!("{b}/workers/{w}/heartbeat"), Some(json!({"events_processed": 1, "pipelines_running": running}))).reply(&routes).await.status().as_u16();
            }
            "age" => { let mut c = coord.write().await; let t = c.heartbeat_timeout; if let Some(n) = c.workers.get_mut(&WorkerId(w.into())) { n.last_heartbeat = Instant::now() - t - Duration::from_secs(2); } continue; }
            "deploy" => status = req("POST", format!("{b}/pipeline-groups"), Some(json!({"name": "g", "routes": [], "pipelines": [{"name": "p", "source": "stream S = A\n    .emit(x: x)\n", "worker_affinity": w, "replicas": 1}]}))).reply(&routes).await.status().as_u16(),
            "delete_group" => { let gid = coord.read().await.pipeline_groups.keys().next().cloned().unwrap_or("none".into()); status = req("DELETE", format!("{b}/pipeline-groups/{gid}"), None).reply(&routes).await.status().as_u16(); }
            "connector" => {
                let v = a["v"].as_u64().unwrap();
                let exists = coord.read().await.connectors.contains_key("c1");
                let body = json!({"name": "c1", "connector_type": "mqtt", "params": {"host": format!("h{v}")}});
                status = if v == 0 { req("DELETE", format!("{b}/connectors/c1"), None).reply(&routes).await.status().as_u16() }
                         else if exists { req("PUT", format!("{b}/connectors/c1"), Some(body)).reply(&routes).await.status().as_u16() }
                         else { req("POST", format!("{b}/connectors"), Some(body)).reply(&routes).await.status().as_u16() };
            }
            "sweep" => {
                // the body of the CLI's health loop after its sync: sweep, replicate the new status, fail over
                let mut c = coord.write().await;
                let r = c.health_sweep();
                for wid in &r.workers_marked_unhealthy {
                    let cmd = varpulis_cluster::raft::ClusterCommand::WorkerStatusChanged { id: wid.0.clone(), status: "unhealthy".into() };
                    if let Some(hd) = &c.raft_handle { let _ = hd.raft.client_write(cmd).await; }
                }
                for wid in r.workers_marked_unhealthy.clone() { c.handle_worker_failure(&wid).await; }
                let mut m: Vec<String> = r.workers_marked_unhealthy.iter().map(|x| x.0.clone()).collect();
                m.sort();
                let mut want: Vec<String> = a["marked"].as_array().map(|x| x.iter().map(|y| y.as_str().unwrap().to_string()).collect()).unwrap_or_default();
                want.sort();
                if m != want { rep.count("sweep_set_differs_from_model", 1); }
            }
            o => panic!("op {o}"),
        }
        if !(200..300).contains(&status) { rep.violation(&["C38"], &format!("operation {op} refused with HTTP {status} although the model enables it"), &small, J::Null, json!(status)); return; }
        // the replicated state machine is updated when client_write returns; the view before and after re-synchronising
        let before = { let c = coord.read().await; project(&c) };
        { let mut c = coord.write().await; c.sync_from_raft(); }
        let after = { let c = coord.read().await; project(&c) };
        let real_rev = diff(&before, &after);
        let mut model_rev: Vec<String> = h["rev"].as_array().map(|x| x.iter().map(|p| format!("{}.{}", p[0].as_str().unwrap(), p[1].as_str().unwrap())).collect()).unwrap_or_default();
        model_rev.sort();
        rep.count(&format!("op_{op}"), 1);
        rep.case(&json!({"case": case_no, "step": n, "op": op}), true);
        if !real_rev.is_empty() {
            // a change the coordinator acknowledged / made is undone by its own re-synchronisation
            if real_rev == model_rev && after == h["post"] {
                let id = match op { "deploy" => "C38-deploy-does-not-replicate-worker-assignment", "heartbeat" => "C38-heartbeat-recovery-not-replicated", "sweep" => "C38-failover-not-replicated", _ => "unattributed" };
                if id == "unattributed" { rep.violation(&["C38"], "sync_from_raft reverts a change (predicted by the faithful model for an operation with no recorded finding)", &small, json!([]), json!(real_rev)); return; }
                rep.known(&["C38"], id, &format!("{op}: sync_from_raft reverts {real_rev:?}"));
            } else {
                rep.violation(&["C38"], "sync_from_raft reverts a change the coordinator acknowledged or made, beyond what the faithful model predicts", &json!({"case": small, "case_no": case_no}), json!({"model_reverted": model_rev, "model_view": h["post"]}), json!({"reverted": real_rev, "before": before, "after": after}));
                return;
            }
        } else if after != h["post"] || !model_rev.is_empty() {
            rep.count("model_mismatch_without_revert", 1);
            if rep_drift_room(rep) { rep.violation_drift(&small, &h["post"], &after); }
            return;    // the model no longer describes this run: stop comparing it
        }
    }
    boot.raft.shutdown().await.ok();
}
fn rep_drift_room(_r: &Report) -> bool { true }

pub fn replay(rt: &tokio::runtime::Runtime, cases: &str, report: &str) {
    let cases = read_cases(cases);
    let mut rep = Report::default();
    for (i, c) in cases.iter().enumerate() {
        let hist = c["hist"].as_array().unwrap().clone();
        let mut r2 = Report::default();
        match catch(|| rt.block_on(run_history(&hist, &mut r2, i))) {
            Ok(()) => rep.merge(r2),
            Err(p) => { rep.merge(r2); rep.violation(&["C38"], "coordinator panicked", &json!({"case_no": i}), J::Null, json!(p)); }
        }
    }
    rep.write(report);
}
