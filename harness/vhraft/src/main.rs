fn main(){}
