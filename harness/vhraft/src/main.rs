//! Raft-family conformance harness (crate features: raft; `persistent` adds RocksStore).
//!   vhraft sm-replay  <cases.ndjson> <report.json>    RaftSM.tla cases on the real stores' state machine
//!   vhraft log-replay <cases.ndjson> <report.json>    RaftLog.tla histories through the RaftStorage calls
//!   vhraft suite      <report.json>                   openraft's storage conformance suite
use openraft::storage::RaftStorage;
use openraft::{CommittedLeaderId, Entry, EntryPayload, LogId, RaftLogReader, RaftSnapshotBuilder, Vote};
#[allow(unused_imports)]
use openraft::RaftLogReader as _;
use serde_json::{json, Value as J};
use std::collections::BTreeMap;
use varpulis_cluster::connector_config::ClusterConnector;
use varpulis_cluster::raft::state_machine::CoordinatorState;
use varpulis_cluster::raft::store::MemStore;
use varpulis_cluster::raft::{ClusterCommand, TypeConfig};
use varpulis_cluster::worker::WorkerCapacity;

mod sync;
#[cfg(feature = "persistent")]
mod rocks;
#[cfg(feature = "persistent")]
mod cluster;

fn read_cases(p: &str) -> Vec<J> {
    std::fs::read_to_string(p).unwrap().lines().filter(|l| !l.trim().is_empty()).map(|l| serde_json::from_str(l).unwrap()).collect()
}
pub fn catch<T>(f: impl FnOnce() -> T) -> Result<T, String> {
    std::panic::catch_unwind(std::panic::AssertUnwindSafe(f)).map_err(|e| e.downcast_ref::<String>().cloned().or_else(|| e.downcast_ref::<&str>().map(|s| s.to_string())).unwrap_or_else(|| "panic".into()))
}

#[derive(Default)]
pub struct Report { total: u64, nontrivial: std::collections::BTreeSet<u64>, violations: Vec<J>, known: BTreeMap<String, (u64, String, Vec<String>)>, counters: BTreeMap<String, u64>, samples: Vec<J>, drift: Vec<J> }
impl Report {
    pub fn case(&mut self, c: &J, nontrivial: bool) {
        self.total += 1;
        if nontrivial { use std::hash::{Hash, Hasher}; let mut h = std::collections::hash_map::DefaultHasher::new(); c.to_string().hash(&mut h); self.nontrivial.insert(h.finish()); }
        if self.samples.len() < 3 { self.samples.push(c.clone()); }
    }
    pub fn count(&mut self, k: &str, n: u64) { *self.counters.entry(k.into()).or_insert(0) += n; }
    pub fn violation(&mut self, props: &[&str], what: &str, case: &J, expected: J, got: J) {
        if self.violations.len() < 200 { self.violations.push(json!({"prop": props, "what": what, "case": case, "expected": expected, "got": got})); } else { self.count("violations_truncated", 1); }
    }
    pub fn known(&mut self, props: &[&str], id: &str, what: &str) {
        let e = self.known.entry(id.into()).or_insert((0, what.into(), props.iter().map(|s| s.to_string()).collect()));
        e.0 += 1;
    }
    pub fn merge(&mut self, o: Report) {
        self.total += o.total;
        self.nontrivial.extend(o.nontrivial);
        if self.samples.len() < 3 { self.samples.extend(o.samples.into_iter().take(1)); }
        self.violations.extend(o.violations);
        self.drift.extend(o.drift);
        for (k, (n, w, p)) in o.known { let e = self.known.entry(k).or_insert((0, w, p)); e.0 += n; }
        for (k, n) in o.counters { *self.counters.entry(k).or_insert(0) += n; }
    }
    pub fn violation_drift(&mut self, case: &J, model: &J, real: &J) {
        if self.drift.len() < 20 { self.drift.push(json!({"prop": ["C38"], "what": "the coordinator's view differs from the CoordSync model but nothing is reverted by sync_from_raft", "case": case, "model": model, "real": real})); }
    }
    pub fn write(&self, p: &str) {
        let known: Vec<J> = self.known.iter().map(|(k, (n, w, pr))| json!({"finding": k, "count": n, "what": w, "prop": pr})).collect();
        std::fs::write(p, serde_json::to_string(&json!({"total": self.total, "distinct_nontrivial": self.nontrivial.len(), "violations": self.violations, "known": known, "drift": self.drift, "samples": self.samples, "counters": self.counters})).unwrap()).unwrap();
    }
}

// ---------------------------------------------------------------- commands
fn connector(v: u64) -> ClusterConnector {
    ClusterConnector { name: "c1".into(), connector_type: "mqtt".into(), params: [("host".to_string(), format!("h{v}")), ("port".to_string(), "1883".to_string())].into_iter().collect(), description: if v == 2 { Some("second".into()) } else { None } }
}
pub fn command(c: &J) -> ClusterCommand {
    let id = || c["id"].as_str().unwrap().to_string();
    let v = || c["v"].as_u64().unwrap();
    match c["k"].as_str().unwrap() {
        "RegisterWorker" => ClusterCommand::RegisterWorker { id: id(), address: format!("http://{}:9000", id()), api_key: "key".into(), capacity: WorkerCapacity { cpu_cores: v() as usize * 4, pipelines_running: 0, max_pipelines: 10 * v() as usize } },
        "DeregisterWorker" => ClusterCommand::DeregisterWorker { id: id() },
        "WorkerStatusChanged" => ClusterCommand::WorkerStatusChanged { id: id(), status: c["v"].as_str().unwrap().into() },
        "WorkerPipelinesUpdated" => ClusterCommand::WorkerPipelinesUpdated { id: id(), assigned_pipelines: (1..=v()).map(|i| format!("p{i}")).collect() },
        "GroupDeployed" => ClusterCommand::GroupDeployed { name: id(), group: json!({"name": id(), "version": v(), "nested": {"z": [1, 2.5, null], "a": "x"}}) },
        "GroupUpdated" => ClusterCommand::GroupUpdated { name: id(), group: json!({"name": id(), "version": v(), "nested": {"z": [1, 2.5, null], "a": "x"}}) },
        "GroupRemoved" => ClusterCommand::GroupRemoved { name: id() },
        "MigrationStarted" => ClusterCommand::MigrationStarted { task: if id() == "noid" { json!({"pipeline": "p", "status": "running"}) } else { json!({"id": id(), "pipeline": "p", "status": "running"}) } },
        "MigrationUpdated" => ClusterCommand::MigrationUpdated { id: id(), status: c["v"].as_str().unwrap().into() },
        "MigrationRemoved" => ClusterCommand::MigrationRemoved { id: id() },
        "ConnectorCreated" => ClusterCommand::ConnectorCreated { name: id(), connector: connector(v()) },
        "ConnectorUpdated" => ClusterCommand::ConnectorUpdated { name: id(), connector: connector(v()) },
        "ConnectorRemoved" => ClusterCommand::ConnectorRemoved { name: id() },
        "ScalingPolicySet" => ClusterCommand::ScalingPolicySet { policy: if v() == 0 { None } else { Some(json!({"min": v(), "max": 9, "f": 0.5})) } },
        "ModelRegistered" => ClusterCommand::ModelRegistered { name: id(), entry: varpulis_cluster::model_registry::ModelRegistryEntry { name: id(), s3_key: format!("k{}", v()), format: "onnx".into(), inputs: vec!["a".into()], outputs: vec!["b".into()], size_bytes: u64::MAX - v(), uploaded_at: "t".into(), description: String::new() } },
        "ModelRemoved" => ClusterCommand::ModelRemoved { name: id() },
        k => panic!("command {k}"),
    }
}
/// canonical view of the IN-MEMORY state: Debug of every entry with maps sorted (the serialized form would hide fields that are
/// skipped or defaulted by serde)
pub fn canon(s: &CoordinatorState) -> J {
    fn m<V: std::fmt::Debug>(h: &std::collections::HashMap<String, V>) -> J { let mut v: Vec<String> = h.iter().map(|(k, x)| format!("{k} => {x:?}")).collect(); v.sort(); json!(v) }
    let conns: J = { let mut v: Vec<String> = s.connectors.iter().map(|(k, c)| { let mut p: Vec<String> = c.params.iter().map(|(a, b)| format!("{a}={b}")).collect(); p.sort(); format!("{k} => {} {} {:?} {:?}", c.name, c.connector_type, p, c.description) }).collect(); v.sort(); json!(v) };
    json!({"workers": m(&s.workers), "groups": m(&s.pipeline_groups), "connectors": conns, "migrations": m(&s.active_migrations), "policy": format!("{:?}", s.scaling_policy), "models": m(&s.models), "serialized": canon_json(s)})
}
/// canonical JSON of the replicated state (maps sorted)
pub fn canon_json(s: &CoordinatorState) -> J {
    fn sort(v: J) -> J { match v { J::Object(m) => { let mut b: BTreeMap<String, J> = BTreeMap::new(); for (k, x) in m { b.insert(k, sort(x)); } J::Object(b.into_iter().collect()) } J::Array(a) => J::Array(a.into_iter().map(sort).collect()), x => x } }
    sort(serde_json::to_value(s).unwrap())
}
/// projection of the real state onto RaftSM.tla's abstract state
fn project(s: &CoordinatorState) -> J {
    let w = |id: &str| match s.workers.get(id) { None => json!({"p": "absent"}), Some(w) => json!({"p": "present", "cap": w.cpu_cores / 4, "status": w.status, "assigned": w.assigned_pipelines.len()}) };
    let g = |id: &str| s.pipeline_groups.get(id).map(|g| g["version"].as_u64().unwrap_or(99)).unwrap_or(0);
    let m = |id: &str| s.active_migrations.get(id).map(|m| m["status"].as_str().unwrap_or("?").to_string()).unwrap_or("absent".into());
    json!({"workers": {"w1": w("w1"), "w2": w("w2")}, "groups": {"g1": g("g1"), "g2": g("g2")}, "migs": {"m1": m("m1"), "m2": m("m2")},
           "conns": s.connectors.get("c1").map(|c| if c.params["host"] == "h1" { 1 } else { 2 }).unwrap_or(0),
           "policy": s.scaling_policy.as_ref().map(|p| p["min"].as_u64().unwrap()).unwrap_or(0),
           "model": s.models.get("md").map(|m| if m.s3_key == "k1" { 1 } else { 2 }).unwrap_or(0)})
}
pub fn lid(term: u64, index: u64) -> LogId<u64> { LogId::new(CommittedLeaderId::new(term, 1), index) }
pub fn entry(term: u64, index: u64, c: Option<&J>) -> Entry<TypeConfig> {
    Entry { log_id: lid(term, index), payload: match c { Some(c) => EntryPayload::Normal(command(c)), None => EntryPayload::Blank } }
}

// ---------------------------------------------------------------- stores
pub trait Store: RaftStorage<TypeConfig> + Sized { fn fresh(dir: &std::path::Path) -> Self; fn fresh_shared(dir: &std::path::Path) -> (Self, Option<varpulis_cluster::raft::store::SharedCoordinatorState>) { (Self::fresh(dir), None) } fn direct_state(&self) -> Option<CoordinatorState>; const NAME: &'static str; }
/// the store's state machine: the public field where there is one, else what the store puts into a snapshot it builds
async fn state_of<S: Store>(s: &mut S, shared: &Option<varpulis_cluster::raft::store::SharedCoordinatorState>) -> CoordinatorState {
    if let Some(st) = s.direct_state() { return st; }
    if let Some(sh) = shared { return sh.read().unwrap().clone(); }      // the in-memory state as published after the last apply / install
    let snap = s.get_snapshot_builder().await.build_snapshot().await.unwrap();
    let v: J = serde_json::from_slice(&snap.snapshot.into_inner()).unwrap();
    serde_json::from_value(v["state"].clone()).unwrap()
}
impl Store for MemStore { fn fresh(_: &std::path::Path) -> Self { MemStore::new() } fn direct_state(&self) -> Option<CoordinatorState> { Some(self.state.clone()) } const NAME: &'static str = "MemStore"; }
#[cfg(feature = "persistent")]
impl Store for varpulis_cluster::raft::persistent_store::RocksStore {
    fn fresh(dir: &std::path::Path) -> Self { varpulis_cluster::raft::persistent_store::RocksStore::open(dir.to_str().unwrap()).expect("open") }
    fn fresh_shared(dir: &std::path::Path) -> (Self, Option<varpulis_cluster::raft::store::SharedCoordinatorState>) { let (s, sh) = varpulis_cluster::raft::persistent_store::RocksStore::open_with_shared_state(dir.to_str().unwrap()).expect("open"); (s, Some(sh)) }
    fn direct_state(&self) -> Option<CoordinatorState> { None }
    const NAME: &'static str = "RocksStore";
}

async fn sm_case<S: Store>(c: &J, rep: &mut Report) {
    let log = c["log"].as_array().unwrap();
    let n = log.len();
    let cut = (c["cut"].as_u64().unwrap() as usize).min(n);
    let snap = (c["snap"].as_u64().unwrap() as usize).min(n);
    let small = json!({"store": S::NAME, "log": log, "cut": cut, "snapshot_at": snap});
    let entries: Vec<Entry<TypeConfig>> = log.iter().enumerate().map(|(i, c)| entry(1, i as u64 + 1, Some(c))).collect();
    let tmp = tempfile::tempdir().unwrap();
    // (a) one by one
    let (mut a, sha) = S::fresh_shared(&tmp.path().join("a"));
    for e in &entries { a.apply_to_state_machine(std::slice::from_ref(e)).await.unwrap(); }
    // (b) two batches cut at `cut`
    let (mut b, shb) = S::fresh_shared(&tmp.path().join("b"));
    if cut > 0 { b.apply_to_state_machine(&entries[..cut]).await.unwrap(); }
    if cut < n { b.apply_to_state_machine(&entries[cut..]).await.unwrap(); }
    // (c) snapshot at `snap` built by one store, installed into a fresh one, rest applied there
    let mut c1 = S::fresh(&tmp.path().join("c1"));
    if snap > 0 { c1.apply_to_state_machine(&entries[..snap]).await.unwrap(); }
    let mut builder = c1.get_snapshot_builder().await;
    let snapshot = builder.build_snapshot().await.unwrap();
    let (mut c2, shc) = S::fresh_shared(&tmp.path().join("c2"));
    c2.install_snapshot(&snapshot.meta, snapshot.snapshot).await.unwrap();
    let applied_after_install = c2.last_applied_state().await.unwrap().0;
    if snap < n { c2.apply_to_state_machine(&entries[snap..]).await.unwrap(); }
    let (sta, stb, stc) = (state_of(&mut a, &sha).await, state_of(&mut b, &shb).await, state_of(&mut c2, &shc).await);
    let (sa, sb, sc) = (canon(&sta), canon(&stb), canon(&stc));
    rep.case(&small, sa != canon(&CoordinatorState::default()));
    if sa != sb { rep.violation(&["C35"], "applying the log in two batches gives another state than entry by entry", &small, sa.clone(), sb); }
    if sa != sc { rep.violation(&["C35"], "snapshot + rest of the log gives another state than the whole log", &small, sa.clone(), sc); }
    let want_applied = if snap == 0 { None } else { Some(lid(1, snap as u64)) };
    if applied_after_install != want_applied { rep.violation(&["C35"], "installed snapshot reports another applied position", &small, json!(format!("{want_applied:?}")), json!(format!("{applied_after_install:?}"))); }
    let pj = project(&sta);
    if pj != c["final"] { rep.violation(&["C35"], "replicated state differs from the specification's fold of the log", &small, c["final"].clone(), pj); }
    let la = a.last_applied_state().await.unwrap().0;
    if la != (if n == 0 { None } else { Some(lid(1, n as u64)) }) { rep.violation(&["C35"], "last applied position wrong", &small, json!(n), json!(format!("{la:?}"))); }
}

fn obs_json(last: Option<LogId<u64>>, purged: Option<LogId<u64>>, vote: Option<Vote<u64>>, entries: Vec<u64>) -> J {
    let l = |x: Option<LogId<u64>>| x.map(|i| json!({"t": i.leader_id.term, "i": i.index})).unwrap_or(json!({"t": 0, "i": 0}));
    json!({"last": l(last), "purged": l(purged), "vote": vote.map(|v| v.leader_id().term).unwrap_or(0), "entries": entries})
}
async fn log_case<S: Store>(c: &J, rep: &mut Report, maxidx: u64) {
    let tmp = tempfile::tempdir().unwrap();
    let mut s = S::fresh(&tmp.path().join("l"));
    let hist = c["hist"].as_array().unwrap();
    let small = json!({"store": S::NAME, "ops": hist.iter().map(|h| json!([h["op"], h["a"], h["b"]])).collect::<Vec<_>>()});
    rep.case(&small, hist.iter().any(|h| h["op"] == "purge" || h["op"] == "delete_conflict"));
    let mut term = 1u64;
    for (n, h) in hist.iter().enumerate() {
        let (a, b) = (h["a"].as_u64().unwrap(), h["b"].as_u64().unwrap());
        match h["op"].as_str().unwrap() {
            "term" => term = a,
            "append" => { let es: Vec<Entry<TypeConfig>> = (a..a + b).map(|i| entry(term, i, None)).collect(); s.append_to_log(es).await.unwrap(); }
            "delete_conflict" => s.delete_conflict_logs_since(lid(b, a)).await.unwrap(),
            "purge" => s.purge_logs_upto(lid(b, a)).await.unwrap(),
            "vote" => s.save_vote(&Vote::new(a, 1)).await.unwrap(),
            o => panic!("op {o}"),
        }
        let st = s.get_log_state().await.unwrap();
        let vote = s.read_vote().await.unwrap();
        let got_entries = s.try_get_log_entries(1..=maxidx).await.unwrap();
        let mut ev = vec![0u64; maxidx as usize];
        let mut ordered = true;
        let mut prev = 0;
        for e in &got_entries { let i = e.log_id.index; if i <= prev { ordered = false; } prev = i; if i >= 1 && i <= maxidx { ev[(i - 1) as usize] = e.log_id.leader_id.term; } }
        let got = obs_json(st.last_log_id, st.last_purged_log_id, vote, ev);
        let want = &h["obs"];
        if !ordered { rep.violation(&["C35"], "log entries not returned in index order", &small, J::Null, json!(n)); }
        if &got != want {
            rep.violation(&["C35"], "storage contract: observation after a storage call differs from the reference", &json!({"case": small, "step": n + 1}), want.clone(), got);
            return;
        }
    }
}

/// opening a RocksDB costs ~15 ms: the quick tier runs every case on MemStore and every VERIF_ROCKS_STRIDE-th one on RocksStore too
#[allow(dead_code)]
fn rocks_stride() -> usize { std::env::var("VERIF_ROCKS_STRIDE").ok().and_then(|s| s.parse().ok()).unwrap_or(1) }

fn main() {
    let args: Vec<String> = std::env::args().collect();
    let rt = tokio::runtime::Builder::new_multi_thread().worker_threads(2).enable_all().build().unwrap();
    match args[1].as_str() {
        "sm-replay" => {
            let cases = read_cases(&args[2]);
            let mut rep = Report::default();
            rt.block_on(async {
                for (_n, c) in cases.iter().enumerate() {
                    sm_case::<MemStore>(c, &mut rep).await;
                    #[cfg(feature = "persistent")]
                    if _n % rocks_stride() == 0 { sm_case::<varpulis_cluster::raft::persistent_store::RocksStore>(c, &mut rep).await; }
                }
            });
            rep.write(&args[3]);
        }
        "log-replay" => {
            let cases = read_cases(&args[2]);
            let maxidx: u64 = args[4].parse().unwrap();
            let mut rep = Report::default();
            rt.block_on(async {
                for (_n, c) in cases.iter().enumerate() {
                    log_case::<MemStore>(c, &mut rep, maxidx).await;
                    #[cfg(feature = "persistent")]
                    if _n % rocks_stride() == 0 { log_case::<varpulis_cluster::raft::persistent_store::RocksStore>(c, &mut rep, maxidx).await; }
                }
            });
            rep.write(&args[3]);
        }
        "suite" => suite(&args[2]),
        #[cfg(feature = "persistent")]
        "cluster-record" => cluster::record(&rt, &args[2..]),
        #[cfg(feature = "persistent")]
        "rocks-replay" => rocks::replay(&rt, &args[2], &args[3]),
        "sync-replay" => sync::replay(&rt, &args[2], &args[3]),
        c => panic!("unknown command {c}"),
    }
}

// ---------------------------------------------------------------- openraft's own storage conformance suite
struct MemBuilder;
impl openraft::testing::StoreBuilder<TypeConfig, openraft::storage::Adaptor<TypeConfig, MemStore>, openraft::storage::Adaptor<TypeConfig, MemStore>, ()> for MemBuilder {
    async fn build(&self) -> Result<((), openraft::storage::Adaptor<TypeConfig, MemStore>, openraft::storage::Adaptor<TypeConfig, MemStore>), openraft::StorageError<u64>> {
        let (l, s) = openraft::storage::Adaptor::new(MemStore::new());
        Ok(((), l, s))
    }
}
#[cfg(feature = "persistent")]
struct RocksBuilder;
#[cfg(feature = "persistent")]
type RS = varpulis_cluster::raft::persistent_store::RocksStore;
#[cfg(feature = "persistent")]
impl openraft::testing::StoreBuilder<TypeConfig, openraft::storage::Adaptor<TypeConfig, RS>, openraft::storage::Adaptor<TypeConfig, RS>, tempfile::TempDir> for RocksBuilder {
    async fn build(&self) -> Result<(tempfile::TempDir, openraft::storage::Adaptor<TypeConfig, RS>, openraft::storage::Adaptor<TypeConfig, RS>), openraft::StorageError<u64>> {
        let d = tempfile::tempdir().unwrap();
        let (l, s) = openraft::storage::Adaptor::new(RS::open(d.path().to_str().unwrap()).unwrap());
        Ok((d, l, s))
    }
}
fn suite(report: &str) {
    let mut rep = Report::default();
    let mut run = |name: &str, r: Result<Result<(), openraft::StorageError<u64>>, String>| {
        rep.case(&json!({"suite": name}), true);
        match r {
            Ok(Ok(())) => rep.count(&format!("suite_{name}_ok"), 1),
            Ok(Err(e)) => rep.violation(&["C35"], "openraft storage conformance suite failed", &json!({"store": name}), json!("Suite::test_all passes"), json!(e.to_string())),
            Err(p) => rep.violation(&["C35"], "openraft storage conformance suite failed an assertion", &json!({"store": name}), json!("Suite::test_all passes"), json!(p.chars().take(900).collect::<String>())),
        }
    };
    run("MemStore", catch(|| openraft::testing::Suite::test_all(MemBuilder)));
    #[cfg(feature = "persistent")]
    run("RocksStore", catch(|| openraft::testing::Suite::test_all(RocksBuilder)));
    rep.write(report);
}
