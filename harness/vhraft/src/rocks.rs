//! C36: spec/raft/RocksRecovery.tla histories on the real RocksStore: storage calls cut by a crash before the (k+1)-th RocksDB write
//! (hook H9), then reopened the way bootstrap_persistent does (open_with_shared_state).
use crate::{catch, entry, lid, read_cases, Report};
use openraft::storage::RaftStorage;
use openraft::{RaftSnapshotBuilder, Vote};
use serde_json::{json, Value as J};
use varpulis_cluster::raft::persistent_store::{verif_crash, RocksStore};
use varpulis_cluster::raft::store::{MemStore, SharedCoordinatorState};

fn cmd(i: u64) -> J { json!({"k": "GroupDeployed", "id": format!("g{i}"), "v": 1}) }
fn state_set(sh: &SharedCoordinatorState, maxidx: u64) -> Vec<bool> {
    let s = sh.read().unwrap();
    (1..=maxidx).map(|i| s.pipeline_groups.contains_key(&format!("g{i}"))).collect()
}

pub fn replay(rt: &tokio::runtime::Runtime, cases: &str, report: &str) {
    let cases = read_cases(cases);
    let mut rep = Report::default();
    for c in &cases {
        let hist = c["hist"].as_array().unwrap();
        let maxidx = hist[0]["disk"]["log"].as_array().unwrap().len() as u64;
        let small = json!({"ops": hist.iter().map(|h| json!([h["op"], h["a"], h["crash"]])).collect::<Vec<_>>()});
        rep.case(&small, hist.iter().any(|h| h["op"] == "reopen"));
        let dir = tempfile::tempdir().unwrap();
        let path = dir.path().join("node").to_str().unwrap().to_string();
        let (st, sh) = RocksStore::open_with_shared_state(&path).expect("open");
        let mut store: Option<RocksStore> = Some(st);
        let mut shared = sh;
        for (n, h) in hist.iter().enumerate() {
            let (op, a, k) = (h["op"].as_str().unwrap(), h["a"].as_u64().unwrap(), h["crash"].as_i64().unwrap());
            let nwrites: i64 = match op { "append" | "vote" | "conflict" => 1, "apply" | "purge" => 2, "install" => 4, _ => 0 };
            if op == "reopen" {
                drop(store.take());
                let (st, sh) = match RocksStore::open_with_shared_state(&path) { Ok(x) => x, Err(e) => { rep.violation(&["C36"], "store does not reopen", &small, J::Null, json!(e)); break; } };
                store = Some(st);
                shared = sh;
                let s = store.as_mut().unwrap();
                let (applied, logst, vote) = rt.block_on(async { (s.last_applied_state().await.unwrap().0, s.get_log_state().await.unwrap(), s.read_vote().await.unwrap()) });
                let ap = applied.map(|l| l.index).unwrap_or(0);
                let got_state = state_set(&shared, maxidx);
                let want_state: Vec<bool> = (1..=maxidx).map(|i| i <= ap).collect();
                // persisted metadata: exactly what the reference disk holds
                let d = &h["disk"];
                let entries: Vec<bool> = { let es = rt.block_on(async { openraft::RaftLogReader::try_get_log_entries(s, 1..=maxidx).await.unwrap() }); (1..=maxidx).map(|i| es.iter().any(|e| e.log_id.index == i)).collect() };
                let meta_ok = ap == d["applied"].as_u64().unwrap() && vote.map(|v| v.leader_id().term).unwrap_or(0) == d["vote"].as_u64().unwrap()
                    && logst.last_purged_log_id.map(|l| l.index).unwrap_or(0) == d["purged"].as_u64().unwrap()
                    && json!(entries) == d["log"];
                if !meta_ok {
                    rep.violation(&["C36"], "vote / log / purge position / applied position after reopen differ from what was persisted before the crash", &json!({"case": small, "step": n + 1}), d.clone(),
                                  json!({"applied": ap, "vote": vote.map(|v| v.leader_id().term), "purged": logst.last_purged_log_id.map(|l| l.index), "log": entries}));
                    break;
                }
                if got_state != want_state {
                    // the faithful model (recovery replays only what is still in the log) predicts exactly this loss
                    // (the run then continues: real state and faithful model agree, so the rest of the history stays comparable)
                    if json!(got_state) == h["mem"]["state"] { rep.known(&["C36"], "C36-recovery-replays-only-the-remaining-log", &format!("applied position {ap}, recovered commands {got_state:?}")); continue; }
                    else { rep.violation(&["C36"], "recovered state is not the state of the commands up to the recorded applied position", &json!({"case": small, "step": n + 1}), json!({"applied": ap, "state": want_state, "faithful_model": h["mem"]["state"]}), json!(got_state)); }
                    break;
                }
                continue;
            }
            let s = store.as_mut().expect("store open");
            if k < nwrites { verif_crash::arm(k + 1); } else { verif_crash::arm(-1); }
            let r = catch(|| rt.block_on(async {
                match op {
                    "append" => s.append_to_log(vec![entry(1, a, Some(&cmd(a)))]).await.map(|_| ()),
                    "vote" => s.save_vote(&Vote::new(a, 1)).await,
                    "apply" => s.apply_to_state_machine(&[entry(1, a, Some(&cmd(a)))]).await.map(|_| ()),
                    "purge" => s.purge_logs_upto(lid(1, a)).await,
                    "conflict" => s.delete_conflict_logs_since(lid(1, a)).await,
                    "build" => { let mut b = s.get_snapshot_builder().await; b.build_snapshot().await.map(|_| ()) }
                    "install" => {
                        // a snapshot of the commands 1..a as a leader would send it
                        let mut m = MemStore::new();
                        let es: Vec<_> = (1..=a).map(|i| entry(1, i, Some(&cmd(i)))).collect();
                        m.apply_to_state_machine(&es).await.unwrap();
                        let snap = m.get_snapshot_builder().await.build_snapshot().await.unwrap();
                        s.install_snapshot(&snap.meta, snap.snapshot).await
                    }
                    o => panic!("op {o}"),
                }
            }));
            verif_crash::arm(-1);
            match r {
                Ok(Ok(())) => { if k < nwrites { rep.violation(&["C36"], "harness: the armed crash point was not reached (write count differs from the model)", &json!({"case": small, "step": n + 1}), json!(nwrites), json!(verif_crash::writes())); break; } }
                Ok(Err(e)) => { rep.violation(&["C36"], "storage call failed", &json!({"case": small, "step": n + 1}), J::Null, json!(e.to_string())); break; }
                Err(p) => { if !(k < nwrites && p.contains("verif crash point")) { rep.violation(&["C36"], "storage call panicked", &json!({"case": small, "step": n + 1}), J::Null, json!(p)); break; } drop(store.take()); }
            }
        }
    }
    rep.write(report);
}
