//! Binding of spec/coordinator/Coordinator.tla to the real `Coordinator`: histories of public calls (plan / commit
//! phases interleaved, worker outcomes fabricated) are executed on a real object; after every call the projected state
//! is recorded.  TLC validates the recorded trace against CoordTrace.tla.
use crate::util::*;
use serde_json::{json, Value as J};
use std::collections::BTreeMap;
use std::time::{Duration, Instant};
use varpulis_cluster::coordinator::{Coordinator, DeployGroupPlan, DeployResponse, DeployTaskResult, MigratePipelinePlan, TeardownPlan};
use varpulis_cluster::migration::MigrationReason;
use varpulis_cluster::pipeline_group::{PipelineDeploymentStatus, PipelineGroupSpec, PipelinePlacement};
use varpulis_cluster::worker::{HeartbeatRequest, WorkerId, WorkerNode, WorkerStatus};

const WS: [&str; 2] = ["w1", "w2"];
fn group_pipes(g: &str) -> Vec<&'static str> {
    if g == "g1" { vec!["p1", "p2"] } else { vec!["q1"] }
}

enum Plan {
    D(DeployGroupPlan, String),
    T(TeardownPlan),
    M(MigratePipelinePlan),
}

pub fn project(c: &Coordinator, gids: &BTreeMap<String, String>, incs: &BTreeMap<String, u64>) -> J {
    let mut workers = serde_json::Map::new();
    for w in WS {
        let v = match c.workers.get(&WorkerId(w.into())) {
            Some(n) => json!({"reg": true,
                "status": match n.status { WorkerStatus::Ready => "ready", WorkerStatus::Unhealthy => "unhealthy", WorkerStatus::Draining => "draining", WorkerStatus::Registering => "registering" },
                "assigned": n.assigned_pipelines, "running": n.capacity.pipelines_running,
                "fresh": n.last_heartbeat.elapsed() <= c.heartbeat_timeout}),
            None => json!({"reg": false, "status": "ready", "assigned": [], "running": 0, "fresh": true}),
        };
        workers.insert(w.into(), v);
    }
    let mut groups = serde_json::Map::new();
    for g in ["g1", "g2"] {
        let grp = gids.get(g).and_then(|id| c.pipeline_groups.get(id));
        let mut pl = serde_json::Map::new();
        for p in group_pipes(g) {
            let v = match grp.and_then(|x| x.placements.get(p)) {
                Some(d) => json!({"w": d.worker_id.0, "epoch": d.epoch,
                    "st": match d.status { PipelineDeploymentStatus::Running => "running", PipelineDeploymentStatus::Failed => "failed", PipelineDeploymentStatus::Deploying => "deploying", PipelineDeploymentStatus::Stopped => "stopped" }}),
                None => json!({"w": "none", "st": "none", "epoch": 0}),
            };
            pl.insert(p.into(), v);
        }
        // inc: how many times a group of this name has been created (the coordinator gives each creation a fresh id)
        groups.insert(g.into(), json!({"exists": grp.is_some(), "pl": pl, "inc": incs.get(g).copied().unwrap_or(0)}));
    }
    json!({"workers": workers, "groups": groups})
}

/// process-wide runtime with a loopback mock worker (201 + DeployResponse for POST /api/v1/pipelines, 200 {} for anything else)
fn mock() -> &'static (tokio::runtime::Runtime, String) {
    static M: std::sync::OnceLock<(tokio::runtime::Runtime, String)> = std::sync::OnceLock::new();
    M.get_or_init(|| {
        use warp::Filter;
        let rt = tokio::runtime::Builder::new_multi_thread().worker_threads(2).enable_all().build().unwrap();
        let addr = rt.block_on(async {
            let deploy = warp::path!("api" / "v1" / "pipelines").and(warp::post()).and(warp::body::json::<J>())
                .map(|b: J| warp::reply::with_status(warp::reply::json(&json!({"id": format!("pid-{}", b["name"].as_str().unwrap_or("p")), "name": b["name"], "status": "running"})), warp::http::StatusCode::CREATED));
            let other = warp::path("api").and(warp::any()).map(|| warp::reply::json(&json!({})));
            let (addr, fut) = warp::serve(deploy.or(other)).bind_ephemeral(([127, 0, 0, 1], 0));
            tokio::spawn(fut);
            addr
        });
        (rt, format!("http://{addr}"))
    })
}

/// Execute one history; returns the trace block.
fn run_history(hist: &[J]) -> Vec<J> { run_history_cap(hist, None) }

/// `cap`: max_pipelines of every registered worker (None = the default of 100)
fn run_history_cap(hist: &[J], cap: Option<usize>) -> Vec<J> {
    let mut c = Coordinator::new();
    let mut plans: BTreeMap<u64, Plan> = BTreeMap::new();
    let mut gids: BTreeMap<String, String> = BTreeMap::new();
    let mut incs: BTreeMap<String, u64> = BTreeMap::new();
    let mut next_plan_id = 0u64;
    let mut out = vec![json!({"ev": "reset"})];
    for a in hist {
        let act = a["a"].as_str().unwrap();
        let mut rec = a.clone();
        rec["ev"] = json!("op");
        let mut ok = true;
        let mut res = json!([]);
        let r = catch(|| match act {
            "register" => { let addr = if a["addr"] == "mock" { mock().1.clone() } else { "http://127.0.0.1:1".to_string() };
                let mut n = WorkerNode::new(WorkerId(a["w"].as_str().unwrap().into()), addr, "k".into()); if let Some(m) = cap { n.capacity.max_pipelines = m; } c.register_worker(n); }
            "deregister" => { ok = c.deregister_worker(&WorkerId(a["w"].as_str().unwrap().into())).is_ok(); }
            "age" => { let t = c.heartbeat_timeout; match c.workers.get_mut(&WorkerId(a["w"].as_str().unwrap().into())) { Some(w) if w.last_heartbeat.elapsed() <= t => w.last_heartbeat = Instant::now() - t - Duration::from_secs(2), _ => ok = false } }
            "draining" => { match c.workers.get_mut(&WorkerId(a["w"].as_str().unwrap().into())) { Some(w) if w.status == WorkerStatus::Ready => w.status = WorkerStatus::Draining, _ => ok = false } }
            "heartbeat" => {
                let hb = HeartbeatRequest { events_processed: 0, pipelines_running: a["n"].as_u64().unwrap() as usize, pipeline_metrics: vec![] };
                ok = c.heartbeat(&WorkerId(a["w"].as_str().unwrap().into()), &hb).is_ok();
            }
            "sweep" => { let r = c.health_sweep(); let mut m: Vec<String> = r.workers_marked_unhealthy.iter().map(|w| w.0.clone()).collect(); m.sort(); res = json!(m); }
            "plan_deploy" => {
                let g = a["g"].as_str().unwrap();
                let spec = PipelineGroupSpec { name: g.into(), routes: vec![], pipelines: group_pipes(g).iter().map(|p| PipelinePlacement {
                    name: p.to_string(), source: "stream S = A".into(),
                    worker_affinity: a["pin"][*p].as_str().filter(|w| *w != "none").map(|w| w.to_string()), replicas: 1, partition_key: None }).collect() };
                match c.plan_deploy_group(&spec) {
                    Ok(plan) => {
                        let mut m = serde_json::Map::new();
                        for t in &plan.tasks { m.insert(t.pipeline_name.clone(), json!(t.worker_id.0)); }
                        res = J::Object(m);
                        plans.insert(next_plan_id, Plan::D(plan, g.to_string()));
                        next_plan_id += 1;
                    }
                    Err(_) => { ok = false; res = json!({}); }
                }
            }
            "commit_deploy" => {
                match plans.remove(&a["id"].as_u64().unwrap()) {
                    Some(Plan::D(plan, g)) => {
                        let results = plan.tasks.iter().map(|t| DeployTaskResult { replica_name: t.replica_name.clone(), pipeline_name: t.pipeline_name.clone(), worker_id: t.worker_id.clone(),
                            worker_address: t.worker_address.clone(), worker_api_key: t.worker_api_key.clone(), replica_count: t.replica_count,
                            outcome: if a["ok"][&t.pipeline_name].as_bool().unwrap() { Ok(DeployResponse { id: format!("pid-{}", t.pipeline_name), name: t.replica_name.clone(), status: "running".into() }) } else { Err("boom".into()) } }).collect();
                        match c.commit_deploy_group(plan, results) { Ok(id) => { *incs.entry(g.clone()).or_insert(0) += 1; gids.insert(g, id); } Err(_) => ok = false }
                    }
                    _ => ok = false,
                }
            }
            "plan_teardown" => {
                match gids.get(a["g"].as_str().unwrap()).map(|id| c.plan_teardown_group(id)) {
                    Some(Ok(p)) => { plans.insert(next_plan_id, Plan::T(p)); next_plan_id += 1; }
                    _ => ok = false,
                }
            }
            "commit_teardown" => { match plans.remove(&a["id"].as_u64().unwrap()) { Some(Plan::T(p)) => c.commit_teardown_group(&p), _ => ok = false } }
            "plan_migrate" => {
                match gids.get(a["g"].as_str().unwrap()).map(|id| c.plan_migrate_pipeline(a["p"].as_str().unwrap(), id, &WorkerId(a["tgt"].as_str().unwrap().into()), MigrationReason::Manual)) {
                    Some(Ok(p)) => { plans.insert(next_plan_id, Plan::M(p)); next_plan_id += 1; }
                    _ => ok = false,
                }
            }
            "commit_migrate" => { match plans.remove(&a["id"].as_u64().unwrap()) { Some(Plan::M(p)) => { c.commit_migrate_pipeline(&p, "pid-new", a["ok"].as_bool().unwrap(), None); } _ => ok = false } }
            "migrate_mono" => {
                // Coordinator::migrate_pipeline (failover / rebalance / drain use it): plan and commit back to back around the HTTP calls.
                // Recorded as the two phases the model has: a plan record (state unchanged) and a commit record with the call's outcome.
                let g = a["g"].as_str().unwrap();
                let before = project(&c, &gids, &incs);
                out.push(json!({"ev": "op", "a": "plan_migrate", "p": a["p"], "g": g, "tgt": a["tgt"], "id": next_plan_id, "ok": true, "res": [], "st": before}));
                let gid = gids.get(g).cloned().unwrap_or_default();
                let r = mock().0.block_on(c.migrate_pipeline(a["p"].as_str().unwrap(), &gid, &WorkerId(a["tgt"].as_str().unwrap().into()), MigrationReason::Failover));
                rec = json!({"ev": "op", "a": "commit_migrate", "id": next_plan_id, "okflag": r.is_ok(), "res": []});
                next_plan_id += 1;
            }
            x => panic!("unknown action {x}"),
        });
        if let Err(p) = r {
            out.push(json!({"ev": "panic", "a": act, "msg": p}));
            break;
        }
        // the teardown of a group forgets its id once committed
        if act == "commit_teardown" { gids.retain(|_, id| c.pipeline_groups.contains_key(id)); }
        // JSON-friendly copies of the two argument kinds that clash with the record's `ok` field
        if act == "commit_deploy" { rec["okmap"] = a["ok"].clone(); }
        if act == "commit_migrate" { rec["okflag"] = a["ok"].clone(); }
        rec["ok"] = json!(ok);
        rec["res"] = res;
        rec["st"] = project(&c, &gids, &incs);
        out.push(rec);
    }
    out
}

/// args: cases.ndjson report.json trace.ndjson
pub fn replay(args: &[String]) {
    let cases = read_cases(&args[0]);
    let mut rep = Report::new();
    let mut traces = vec![];
    for c in &cases {
        let hist = c["hist"].as_array().unwrap();
        let blk = run_history_cap(hist, c["cap"].as_u64().map(|x| x as usize));
        let commits = hist.iter().filter(|h| h["a"].as_str().unwrap().starts_with("commit")).count();
        rep.case(&json!({"hist": hist.iter().map(|h| h["a"].clone()).collect::<Vec<_>>()}), commits > 0);
        if blk.iter().any(|r| r["ev"] == "panic") {
            rep.violation(&["C32", "C33"], "coordinator call panicked", &json!({"hist": hist}), J::Null, blk.last().cloned().unwrap_or(J::Null));
            continue;
        }
        if blk.iter().any(|r| has_discrepancy(&r["st"])) { rep.count("blocks_with_bookkeeping_discrepancy", 1); }
        if blk.iter().any(|r| r["a"] == "sweep" && r["res"].as_array().map(|a| !a.is_empty()).unwrap_or(false)) { rep.count("blocks_with_effective_sweep", 1); }
        traces.extend(blk);
    }
    write_ndjson(&args[2], &traces);
    rep.write(&args[1]);
}

/// args: report.json trace.ndjson nblocks len — seeded random call soup (longer than TLC's histories)
pub fn record(args: &[String]) {
    let nblocks: usize = args[2].parse().unwrap();
    let len: usize = args[3].parse().unwrap();
    let mut rng = Rng::new(seed_from_env() ^ 0xc00d);
    let mut rep = Report::new();
    let mut traces = vec![];
    for _ in 0..nblocks {
        let mut hist: Vec<J> = vec![];
        let mut open: Vec<(u64, &str, String)> = vec![]; // plan id, kind, group
        let mut next_id = 0u64;
        // the driver does not know which plans succeed; it mirrors the harness' id assignment by executing incrementally
        let mut c_hist_len = 0usize;
        let mut blk: Vec<J> = vec![];
        for _ in 0..len {
            let w = *rng.pick(&WS);
            let g = *rng.pick(&["g1", "g2"]);
            let a = match rng.below(14) {
                0 | 1 => json!({"a": "register", "w": w}),
                2 => json!({"a": "deregister", "w": w}),
                3 => json!({"a": "age", "w": w}),
                4 => json!({"a": "heartbeat", "w": w, "n": rng.below(3)}),
                5 => json!({"a": "sweep"}),
                6 => json!({"a": "draining", "w": w}),
                7 | 8 => {
                    let mut pin = serde_json::Map::new();
                    for p in group_pipes(g) { pin.insert(p.into(), json!(if rng.chance(1, 2) { *rng.pick(&WS) } else { "none" })); }
                    json!({"a": "plan_deploy", "g": g, "pin": pin, "id": next_id})
                }
                9 => json!({"a": "plan_teardown", "g": g, "id": next_id}),
                10 => { let p = *rng.pick(&group_pipes(g)); json!({"a": "plan_migrate", "p": p, "g": g, "tgt": w, "id": next_id}) }
                _ => {
                    if open.is_empty() { json!({"a": "sweep"}) } else {
                        let i = rng.below(open.len() as u64) as usize;
                        let (id, kind, grp) = open.remove(i);
                        match kind {
                            "deploy" => { let mut ok = serde_json::Map::new(); for p in group_pipes(&grp) { ok.insert(p.into(), json!(rng.chance(3, 4))); } json!({"a": "commit_deploy", "id": id, "ok": ok}) }
                            "teardown" => json!({"a": "commit_teardown", "id": id}),
                            _ => json!({"a": "commit_migrate", "id": id, "ok": rng.chance(3, 4)}),
                        }
                    }
                }
            };
            hist.push(a.clone());
            // run the whole prefix again is wasteful; instead execute incrementally by re-running (histories are short)
            blk = run_history(&hist);
            let last = blk.last().unwrap();
            if last["ev"] == "panic" { break; }
            if a["a"].as_str().unwrap().starts_with("plan_") {
                if last["ok"].as_bool().unwrap() {
                    let kind = match a["a"].as_str().unwrap() { "plan_deploy" => "deploy", "plan_teardown" => "teardown", _ => "migrate" };
                    open.push((next_id, kind, a["g"].as_str().unwrap_or("g1").to_string()));
                    next_id += 1;
                }
            }
            c_hist_len += 1;
        }
        let _ = c_hist_len;
        rep.case(&json!({"hist": hist.iter().map(|h| h["a"].clone()).collect::<Vec<_>>()}), true);
        if blk.iter().any(|r| r["ev"] == "panic") {
            rep.violation(&["C32", "C33"], "coordinator call panicked", &json!({"hist": hist}), J::Null, blk.last().cloned().unwrap_or(J::Null));
            continue;
        }
        if blk.iter().any(|r| has_discrepancy(&r["st"])) { rep.count("blocks_with_bookkeeping_discrepancy", 1); }
        if blk.iter().any(|r| r["a"] == "sweep" && r["res"].as_array().map(|a| !a.is_empty()).unwrap_or(false)) { rep.count("blocks_with_effective_sweep", 1); }
        traces.extend(blk);
    }
    write_ndjson(&args[1], &traces);
    rep.write(&args[0]);
}

/// Bookkeeping discrepancy on a projected state (only used to COUNT how often the recorded finding is exercised;
/// the verdict is TLC's: RNoNewErrs in CoordTrace.tla).
fn has_discrepancy(st: &J) -> bool {
    if st.is_null() { return false; }
    let mut running: BTreeMap<String, Vec<String>> = BTreeMap::new();
    for (_, g) in st["groups"].as_object().unwrap() {
        if !g["exists"].as_bool().unwrap() { continue; }
        for (p, d) in g["pl"].as_object().unwrap() {
            if d["st"] == "running" {
                let w = d["w"].as_str().unwrap().to_string();
                if !st["workers"][&w]["reg"].as_bool().unwrap_or(false) { return true; }
                running.entry(w).or_default().push(p.clone());
            }
        }
    }
    for (w, n) in st["workers"].as_object().unwrap() {
        if !n["reg"].as_bool().unwrap() { continue; }
        let mut a: Vec<String> = n["assigned"].as_array().unwrap().iter().map(|x| x.as_str().unwrap().to_string()).collect();
        a.sort();
        let mut r = running.get(w).cloned().unwrap_or_default();
        r.sort();
        if a != r || n["running"].as_u64().unwrap() as usize != r.len() { return true; }
    }
    false
}
