//! C14: spec/aggregate/Aggregate.tla gives exact rational references per batch; the three code paths
//! (rows, shared events, columnar) must agree with it and with each other.
use crate::util::*;
use serde_json::{json, Value as J};
use std::sync::Arc;
use varpulis_core::Value;
use varpulis_runtime::aggregation::*;
use varpulis_runtime::columnar::ColumnarBuffer;
use varpulis_runtime::event::Event;

const BIG: f64 = 1e9;

fn close(a: f64, b: f64, tol: f64) -> bool { (a.is_nan() && b.is_nan()) || a == b || (a - b).abs() <= tol * a.abs().max(b.abs()).max(1.0) }
fn num(v: Option<&Value>) -> Option<f64> { match v { Some(Value::Int(i)) => Some(*i as f64), Some(Value::Float(f)) => Some(*f), _ => None } }
fn same_val(a: Option<&Value>, b: Option<&Value>) -> bool {
    match (num(a), num(b)) { (Some(x), Some(y)) => close(x, y, 1e-9), (None, None) => format!("{a:?}") == format!("{b:?}"), _ => false }
}

/// args: cases.ndjson report.json
pub fn replay(args: &[String]) {
    let cases = read_cases(&args[0]);
    let mut rep = Report::new();
    for c in &cases {
        let big = c["big"].as_bool().unwrap();
        let off = if big { BIG } else { 0.0 };
        let toks: Vec<i64> = c["batch"].as_array().unwrap().iter().map(|x| x.as_i64().unwrap()).collect();
        let evs: Vec<Event> = toks.iter().map(|t| {
            let e = Event::new("T");
            match *t {
                100 => e,
                101 => e.with_field("value", "str"),
                102 => e.with_field("value", f64::NAN),
                h if h % 2 == 0 => e.with_field("value", h / 2 + off as i64),
                h => e.with_field("value", h as f64 / 2.0 + off),
            }
        }).collect();
        let small = json!({"batch": toks, "big": big});
        let r = &c["ref"];
        let n = r["n"].as_i64().unwrap();
        rep.case(&small, n >= 2);
        let shared: Vec<Arc<Event>> = evs.iter().cloned().map(Arc::new).collect();
        let res = catch(|| {
            let agg = Aggregator::new()
                .add("count".to_string(), Box::new(Count), None)
                .add("sum".to_string(), Box::new(Sum), Some("value".to_string()))
                .add("avg".to_string(), Box::new(Avg), Some("value".to_string()))
                .add("min".to_string(), Box::new(Min), Some("value".to_string()))
                .add("max".to_string(), Box::new(Max), Some("value".to_string()))
                .add("std".to_string(), Box::new(StdDev), Some("value".to_string()))
                .add("first".to_string(), Box::new(First), Some("value".to_string()))
                .add("last".to_string(), Box::new(Last), Some("value".to_string()))
                .add("cd".to_string(), Box::new(CountDistinct), Some("value".to_string()))
                .add("ema".to_string(), Box::new(Ema::new(3)), Some("value".to_string()));
            let a = agg.apply(&evs);
            let b = agg.apply_shared(&shared);
            let mut buf = ColumnarBuffer::from_events(shared.clone());
            let cc = agg.apply_columnar(&mut buf);
            (a, b, cc)
        });
        let (a, b, cc) = match res { Ok(x) => x, Err(p) => { rep.violation(&["C14", "C11"], &format!("aggregation panicked: {p}"), &small, J::Null, J::Null); continue; } };
        // 1. the three paths agree
        for k in ["count", "sum", "avg", "min", "max", "std", "first", "last", "cd", "ema"] {
            if !(same_val(a.get(k), b.get(k)) && same_val(b.get(k), cc.get(k))) {
                rep.violation(&["C14"], &format!("{k}: row / shared / columnar paths disagree"), &small, J::Null, json!({"rows": format!("{:?}", a.get(k)), "shared": format!("{:?}", b.get(k)), "columnar": format!("{:?}", cc.get(k))}));
            }
        }
        // 2. against the reference (shared path = the engine's path); NaN / string cells the documentation leaves open are skipped
        let hasnan = r["hasnan"].as_bool().unwrap();
        let hasstr = r["hasstr"].as_bool().unwrap();
        let nf = n as f64;
        let mut chk = |name: &str, got: Option<&Value>, want: Option<f64>, tol: f64, rep: &mut Report| {
            let g = num(got);
            let ok = match (g, want) { (Some(x), Some(y)) => close(x, y, tol), (None, None) => true, (Some(x), None) => x.is_nan() && false, _ => false };
            if !ok { rep.violation(&["C14"], &format!("{name}: result differs from its mathematical definition"), &small, json!(want), json!(format!("{got:?}"))); }
        };
        let half = |v: &J| v.as_i64().unwrap() as f64 / 2.0;
        if num(b.get("count")) != Some(r["count"].as_i64().unwrap() as f64) {
            rep.violation(&["C14"], "count: differs from the number of events", &small, r["count"].clone(), json!(format!("{:?}", b.get("count"))));
        }
        let sum_want = if n == 0 { None } else { Some(half(&r["sum"]) + nf * off) };
        if n > 0 { chk("sum", b.get("sum"), sum_want, 1e-9, &mut rep); }
        chk("avg", b.get("avg"), if r["avg"]["ok"].as_bool().unwrap() { Some(r["avg"]["n"].as_i64().unwrap() as f64 / 2.0 / r["avg"]["d"].as_i64().unwrap() as f64 + off) } else { None }, 1e-9, &mut rep);
        chk("min", b.get("min"), if r["min"]["ok"].as_bool().unwrap() { Some(half(&r["min"]["v"]) + off) } else { None }, 1e-12, &mut rep);
        chk("max", b.get("max"), if r["max"]["ok"].as_bool().unwrap() { Some(half(&r["max"]["v"]) + off) } else { None }, 1e-12, &mut rep);
        if !hasnan {
            // stddev: compared as variance (quarter units in the reference)
            let want_var = if r["var"]["ok"].as_bool().unwrap() { Some(r["var"]["n"].as_i64().unwrap() as f64 / 4.0 / r["var"]["d"].as_i64().unwrap() as f64) } else { None };
            let got_var = num(b.get("std")).map(|s| s * s);
            let okv = match (got_var, want_var) { (Some(x), Some(y)) => (x - y).abs() <= 1e-6 * y.max(1e-3), (None, None) => true, _ => false };
            if !okv { rep.violation(&["C14"], "stddev: result differs from the sample standard deviation", &small, json!(want_var.map(|v| v.sqrt())), json!(format!("{:?}", b.get("std")))); }
            chk("ema", b.get("ema"), if r["ema"]["ok"].as_bool().unwrap() { Some(r["ema"]["n"].as_i64().unwrap() as f64 / 2.0 / r["ema"]["d"].as_i64().unwrap() as f64 + off) } else { None }, 1e-9, &mut rep);
            if r["first"]["ok"].as_bool().unwrap() { chk("first", b.get("first"), Some(half(&r["first"]["v"]) + off), 1e-12, &mut rep); }
            if r["last"]["ok"].as_bool().unwrap() { chk("last", b.get("last"), Some(half(&r["last"]["v"]) + off), 1e-12, &mut rep); }
            if !hasstr && num(b.get("cd")) != Some(r["distinct"].as_i64().unwrap() as f64) {
                rep.violation(&["C14"], "count_distinct: differs from the number of distinct values", &small, r["distinct"].clone(), json!(format!("{:?}", b.get("cd"))));
            }
        }
    }
    rep.write(&args[1]);
}
