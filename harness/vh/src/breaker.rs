//! C45: spec/breaker/Breaker.tla schedules (tick / begin(sender) / finish(sender, ok)) replayed on a real ResilientSink with a real
//! DeadLetterQueue and a scripted inner sink whose `send` parks on a gate, so that several senders are in flight at once.
use crate::util::*;
use serde_json::{json, Value as J};
use std::collections::HashMap;
use std::sync::{Arc, Mutex};
use varpulis_runtime::circuit_breaker::{verif_clock, CircuitBreaker, CircuitBreakerConfig};
use varpulis_runtime::dead_letter::DeadLetterQueue;
use varpulis_runtime::event::Event;
use varpulis_runtime::sink::{ResilientSink, Sink};

struct Gated {
    arrived: Mutex<Vec<i64>>,
    gates: Mutex<HashMap<i64, tokio::sync::oneshot::Receiver<bool>>>,
    delivered: Mutex<Vec<i64>>,
}
fn evid(e: &Event) -> i64 { match e.data.get("id") { Some(varpulis_core::Value::Int(n)) => *n, _ => -1 } }

#[async_trait::async_trait]
impl Sink for Gated {
    fn name(&self) -> &str { "gated" }
    async fn send(&self, event: &Event) -> anyhow::Result<()> {
        let id = evid(event);
        let rx = self.gates.lock().unwrap().remove(&id);
        self.arrived.lock().unwrap().push(id);
        let ok = match rx { Some(rx) => rx.await.unwrap_or(false), None => true };
        if ok { self.delivered.lock().unwrap().push(id); Ok(()) } else { Err(anyhow::anyhow!("downstream failure for {id}")) }
    }
    async fn flush(&self) -> anyhow::Result<()> { Ok(()) }
    async fn close(&self) -> anyhow::Result<()> { Ok(()) }
}

async fn run_async(c: &J) -> Vec<J> {
    let threshold = c["threshold"].as_u64().unwrap() as u32;
    let timeout = c["timeout"].as_u64().unwrap();
    let mut out = vec![json!({"ev": "reset"})];
    verif_clock::set_offset_ms(1000);
    let mut vnow = 1u64; // model time unit = 1 s
    let dir = tempfile::tempdir().unwrap();
    let dlq = Arc::new(DeadLetterQueue::open(dir.path().join("dlq.jsonl")).unwrap());
    let inner = Arc::new(Gated { arrived: Mutex::new(vec![]), gates: Mutex::new(HashMap::new()), delivered: Mutex::new(vec![]) });
    let cb = Arc::new(CircuitBreaker::new(CircuitBreakerConfig { failure_threshold: threshold, reset_timeout: std::time::Duration::from_secs(timeout) }));
    let sink = Arc::new(ResilientSink::new(inner.clone(), cb, Some(dlq.clone())));
    let mut senders: HashMap<String, (i64, tokio::sync::oneshot::Sender<bool>, tokio::task::JoinHandle<bool>)> = HashMap::new();
    for h in c["hist"].as_array().unwrap() {
        match h["a"].as_str().unwrap() {
            "tick" => { vnow += 1; verif_clock::set_offset_ms(vnow * 1000); out.push(json!({"ev": "tick"})); }
            "begin" => {
                let s = h["s"].as_str().unwrap().to_string();
                let id = h["ev"].as_i64().unwrap();
                let (tx, rx) = tokio::sync::oneshot::channel::<bool>();
                inner.gates.lock().unwrap().insert(id, rx);
                let sk = sink.clone();
                let ev = Event::new("E").with_field("id", id).with_field("payload", format!("p{id}"));
                let jh = tokio::spawn(async move { sk.send(&ev).await.is_ok() });
                // let the task run until it parks on the gate (admitted) or finishes (rejected)
                let mut admitted = false;
                for _ in 0..50 {
                    tokio::task::yield_now().await;
                    if inner.arrived.lock().unwrap().contains(&id) { admitted = true; break; }
                    if jh.is_finished() { break; }
                }
                if !admitted { inner.gates.lock().unwrap().remove(&id); let _ = jh.await; }
                else { senders.insert(s.clone(), (id, tx, jh)); }
                out.push(json!({"ev": "begin", "s": s, "evid": id, "admitted": admitted}));
            }
            "finish" => {
                let s = h["s"].as_str().unwrap().to_string();
                let ok = h["ok"].as_bool().unwrap();
                match senders.remove(&s) {
                    Some((id, tx, jh)) => { let _ = tx.send(ok); let _ = jh.await; out.push(json!({"ev": "finish", "s": s, "evid": id, "ok": ok})); }
                    // the model thinks this sender is in flight but the real sink rejected it: record the step so that TLC sees the divergence
                    None => out.push(json!({"ev": "finish", "s": s, "evid": h["ev"], "ok": ok, "ghost": true})),
                }
            }
            a => panic!("action {a}"),
        }
    }
    // read the DLQ file back
    let text = std::fs::read_to_string(dlq.path()).unwrap_or_default();
    let mut dl = vec![];
    let mut dlq_ok = true;
    for line in text.lines() {
        match serde_json::from_str::<J>(line) {
            Ok(j) => {
                let named = j["connector"] == "gated" && j["error"].as_str().map(|e| !e.is_empty()).unwrap_or(false);
                let id = j["event"]["data"]["id"].as_i64().or_else(|| j["event"]["data"]["id"]["Int"].as_i64()).or_else(|| j["event"]["id"].as_i64());
                if !named || id.is_none() { dlq_ok = false; }
                if let Some(i) = id { dl.push(i); }
            }
            Err(_) => dlq_ok = false,
        }
    }
    let mut delivered = inner.delivered.lock().unwrap().clone();
    delivered.sort();
    dl.sort();
    out.push(json!({"ev": "end", "delivered": delivered, "dlq": dl, "dlq_ok": dlq_ok}));
    out
}

/// args: cases.ndjson report.json trace.ndjson
pub fn replay(args: &[String]) {
    let cases = read_cases(&args[0]);
    let mut rep = Report::new();
    let rt = tokio::runtime::Builder::new_current_thread().enable_all().build().unwrap();
    let mut traces = vec![];
    for c in &cases {
        let b = rt.block_on(run_async(c));
        let rejected = b.iter().any(|r| r["ev"] == "begin" && r["admitted"] == false);
        rep.case(&json!({"hist": c["hist"].as_array().unwrap().iter().map(|h| json!([h["a"], h["s"], h["ok"]])).collect::<Vec<_>>()}), rejected);
        if b.iter().any(|r| r["ghost"] == true) { rep.count("blocks_with_ghost_finish", 1); }
        traces.extend(b.into_iter().filter(|r| r["ghost"] != true));
    }
    write_ndjson(&args[2], &traces);
    rep.write(&args[1]);
}
