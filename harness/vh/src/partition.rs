//! C04: spec/partition/PartGen.tla cases: the partitioned stream on the whole input vs the same stream on each key's sub-sequence.
use crate::util::*;
use chrono::{Duration, TimeZone, Utc};
use serde_json::{json, Value as J};
use varpulis_core::Value;
use varpulis_runtime::engine::Engine;
use varpulis_runtime::event::Event;

const AGG: &str = "    .aggregate(n: count(), sm: sum(id), f: first(id), l: last(id), mx: max(x))\n    .emit(n: n, sm: sm, f: f, l: l, mx: mx)\n";
fn program(cls: &str) -> String {
    match cls {
        "count" => format!("stream S = A\n    .partition_by(k)\n    .window(2)\n{AGG}"),
        "count_having" => "stream S = A\n    .partition_by(k)\n    .window(2)\n    .aggregate(n: count(), sm: sum(x), f: first(id))\n    .having(sm > 1)\n    .emit(n: n, sm: sm, f: f)\n".into(),
        "slidingcount" => format!("stream S = A\n    .partition_by(k)\n    .window(3, sliding: 1)\n{AGG}"),
        "tumbling" => format!("stream S = A\n    .partition_by(k)\n    .window(4s)\n{AGG}"),
        "sliding" => format!("stream S = A\n    .partition_by(k)\n    .window(4s, sliding: 2s)\n{AGG}"),
        "session" => format!("stream S = A\n    .partition_by(k)\n    .window(session: 2s)\n{AGG}"),
        "aggregate" => format!("stream S = A\n    .partition_by(k)\n{AGG}"),
        "seq" => "stream S = A as a\n    -> B as b\n    .partition_by(k)\n    .emit(ai: a.id, bi: b.id)\n".into(),
        "seq_pred" => "stream S = A as a\n    -> B where x >= a.x as b\n    .partition_by(k)\n    .emit(ai: a.id, bi: b.id)\n".into(),
        "kleene" => "stream S = A as a\n    -> all B as b\n    -> C as c\n    .partition_by(k)\n    .emit(ai: a.id, bi: b.id, ci: c.id)\n".into(),
        // three steps, the middle one with a predicate on the first capture
        "seq3" => "stream S = A as a\n    -> B where x >= a.x as b\n    -> C as c\n    .partition_by(k)\n    .emit(ai: a.id, bi: b.id, ci: c.id)\n".into(),
        c if c.starts_with("api_") => format!("SaseEngine SEQ(A, B{{, C}}) partition_by k: {c}"),
        c => panic!("class {c}"),
    }
}
fn key(kt: &str, k: u64) -> Option<Value> {
    if k == 0 { return None; }
    Some(match kt {
        "int" => Value::Int([0i64, 7, -7, 70][k as usize % 4 + 0] + (k as i64 / 4) * 1000),
        "strnum" => Value::Str(["", "7", "07", "7.0", "-7", " 7", "70"][k as usize % 7].into()),   // distinct strings that look alike as numbers
        _ => Value::Str(["", "alpha", "Alpha", "alpha ", "beta", "null", "none"][k as usize % 7].into()),
    })
}
fn fmt(ev: &Event) -> String {
    let mut f: Vec<String> = ev.data.iter().filter(|(k, _)| &***k != "match_duration_ms").map(|(k, v)| format!("{k}={v}")).collect();
    f.sort();
    format!("{} {{{}}}", ev.event_type, f.join(","))
}
fn run(rt: &tokio::runtime::Runtime, prog: &str, events: &[Event]) -> Result<Vec<String>, String> {
    let (tx, mut rx) = tokio::sync::mpsc::channel::<Event>(100000);
    let mut e = Engine::new(tx);
    e.load(&varpulis_parser::parse(prog).map_err(|x| format!("parse: {x}\n{prog}"))?).map_err(|x| format!("load: {x}"))?;
    let mut out = vec![];
    for ev in events {
        match catch(|| rt.block_on(e.process(ev.clone()))) { Ok(Ok(())) => {} Ok(Err(x)) => return Err(format!("process: {x}")), Err(p) => return Err(format!("panic: {p}")) }
        while let Ok(o) = rx.try_recv() { out.push(fmt(&o)); }
    }
    Ok(out)
}

/// Direct SaseEngine differential with a small run budget: every partition has the budget a stand-alone engine would have.
fn api_run(maxruns: usize, strat: &str, three: bool, events: &[Event]) -> Result<Vec<String>, String> {
    use varpulis_runtime::sase::{BackpressureStrategy, SaseEngine, SasePattern};
    let ev = |t: &str, a: &str| SasePattern::Event { event_type: t.into(), predicate: None, alias: Some(a.into()) };
    let mut pats = vec![ev("A", "a"), ev("B", "b")];
    if three { pats.push(ev("C", "c")); }
    let mut e = SaseEngine::new(SasePattern::Seq(pats)).with_max_runs(maxruns).with_partition_by("k".into())
        .with_backpressure(match strat { "drop" => BackpressureStrategy::Drop, "oldest" => BackpressureStrategy::EvictOldest, _ => BackpressureStrategy::EvictLeastProgress });
    let mut out = vec![];
    for x in events {
        match catch(|| e.process(x)) {
            Ok(ms) => for m in ms {
                let mut ids: Vec<String> = m.captured.iter().map(|(k, v)| format!("{k}={}", v.get("id").map(|i| i.to_string()).unwrap_or_default())).collect();
                ids.sort();
                out.push(ids.join(","));
            },
            Err(p) => return Err(format!("panic: {p}")),
        }
    }
    Ok(out)
}

/// args: cases.ndjson report.json
pub fn replay(args: &[String]) {
    let cases = read_cases(&args[0]);
    let mut rep = Report::new();
    let rt = tokio::runtime::Builder::new_current_thread().enable_all().build().unwrap();
    for c in &cases {
        let cls = c["cls"].as_str().unwrap();
        let kt = c["kt"].as_str().unwrap();
        let prog = program(cls);
        let mut t = 0i64;
        let evs: Vec<(u64, Event)> = c["stream"].as_array().unwrap().iter().enumerate().map(|(i, e)| {
            t += e["dt"].as_i64().unwrap();
            let k = e["k"].as_u64().unwrap();
            let mut ev = Event::new(e["type"].as_str().unwrap()).with_field("id", (i + 1) as i64).with_field("x", e["x"].as_i64().unwrap())
                .with_timestamp(Utc.timestamp_opt(7_000_000, 0).unwrap() + Duration::seconds(t));
            if let Some(v) = key(kt, k) { ev = ev.with_field("k", v); }
            (k, ev)
        }).collect();
        let small = json!({"class": cls, "key_type": kt, "program": prog, "stream": c["stream"]});
        let api = cls.starts_with("api_");
        // api classes: "api_<strategy>_<maxruns>_<2|3 steps>"
        let apip: Vec<&str> = cls.split('_').collect();
        let runit = |es: &[Event]| if api { api_run(apip[2].parse().unwrap(), apip[1], apip[3] == "3", es) } else { run(&rt, &prog, es) };
        let whole = runit(&evs.iter().map(|(_, e)| e.clone()).collect::<Vec<_>>());
        let mut keys: Vec<u64> = evs.iter().map(|(k, _)| *k).collect();
        keys.sort(); keys.dedup();
        let mut parts: Result<Vec<String>, String> = Ok(vec![]);
        for k in &keys {
            let sub: Vec<Event> = evs.iter().filter(|(x, _)| x == k).map(|(_, e)| e.clone()).collect();
            match (runit(&sub), &mut parts) { (Ok(o), Ok(p)) => p.extend(o), (Err(e), p) => { *p = Err(e); } _ => {} }
        }
        rep.count(&format!("class_{cls}"), 1);
        match (whole, parts) {
            (Ok(mut w), Ok(mut p)) => {
                rep.case(&small, !p.is_empty() && keys.len() > 1);
                w.sort(); p.sort();
                if w != p { rep.count(&format!("fail_{cls}_{kt}"), 1); rep.violation(&["C04"], "the partitioned stream's outputs differ from the union of its per-key runs", &small, json!(p), json!(w)); }
            }
            (a, b) => { rep.case(&small, true); rep.violation(&["C04"], "engine failed", &small, json!(b.err()), json!(a.err())); }
        }
    }
    rep.write(&args[1]);
}
