//! Binding of spec/join/Join.tla to JoinBuffer and to engine-level join programs.  Time unit 50 ms.
use crate::util::*;
use chrono::{DateTime, Duration, TimeZone, Utc};
use rustc_hash::FxHashMap;
use serde_json::{json, Value as J};
use varpulis_core::Value;
use varpulis_runtime::event::Event;
use varpulis_runtime::join::JoinBuffer;

const UNIT_MS: i64 = 50;
fn t0() -> DateTime<Utc> { Utc.timestamp_opt(2_000_000, 0).unwrap() }
fn idf(e: &Event, f: &str) -> i64 { match e.data.get(f) { Some(Value::Int(n)) => *n, _ => -1 } }

fn buffer_block(w: i64, arr: &[J]) -> Vec<J> {
    let mut keys = FxHashMap::default();
    keys.insert("A".to_string(), "k".to_string());
    keys.insert("B".to_string(), "k".to_string());
    let mut jb = JoinBuffer::new(vec!["A".into(), "B".into()], keys, Duration::milliseconds(w * UNIT_MS));
    let mut out = vec![json!({"ev": "reset", "w": w})];
    for (i, a) in arr.iter().enumerate() {
        let src = a["src"].as_str().unwrap();
        let mut e = Event::new(src).with_field("k", a["key"].as_i64().unwrap()).with_field("id", (i + 1) as i64);
        e.timestamp = t0() + Duration::milliseconds(a["ts"].as_i64().unwrap() * UNIT_MS);
        let r = jb.add_event(src, e);
        let pick = match &r { Some(o) => json!({"A": idf(o, "A.id"), "B": idf(o, "B.id")}), None => json!({"A": 0, "B": 0}) };
        out.push(json!({"ev": "arr", "src": src, "key": a["key"], "ts": a["ts"], "out": r.is_some(), "pick": pick}));
    }
    out
}

fn engine_block(rt: &tokio::runtime::Runtime, w: i64, arr: &[J]) -> Result<Vec<J>, String> {
    let vpl = format!("stream SA = A\nstream SB = B\n\nstream Joined = join(SA, SB)\n    .on(SA.k == SB.k)\n    .window({}ms)\n    .select(a: SA.id, b: SB.id)\n    .emit(a: a, b: b)\n", w * UNIT_MS);
    let program = varpulis_parser::parse(&vpl).map_err(|e| format!("parse: {e}"))?;
    let (tx, mut rx) = tokio::sync::mpsc::channel::<Event>(10000);
    let mut engine = varpulis_runtime::engine::Engine::new(tx);
    engine.load(&program).map_err(|e| format!("load: {e}"))?;
    let mut out = vec![json!({"ev": "reset", "w": w, "engine": true})];
    for (i, a) in arr.iter().enumerate() {
        let src = a["src"].as_str().unwrap();
        let mut e = Event::new(src).with_field("k", a["key"].as_i64().unwrap()).with_field("id", (i + 1) as i64);
        e.timestamp = t0() + Duration::milliseconds(a["ts"].as_i64().unwrap() * UNIT_MS);
        match catch(|| rt.block_on(engine.process(e))) { Ok(Ok(())) => {} Ok(Err(x)) => return Err(format!("process: {x}")), Err(p) => return Err(format!("panic: {p}")) }
        let mut outs = vec![];
        while let Ok(o) = rx.try_recv() { if &*o.event_type == "Joined" { outs.push(o); } }
        if outs.len() > 1 { return Err(format!("{} joined outputs for one arrival", outs.len())); }
        let pick = match outs.first() { Some(o) => json!({"A": idf(o, "a"), "B": idf(o, "b")}), None => json!({"A": 0, "B": 0}) };
        out.push(json!({"ev": "arr", "src": src, "key": a["key"], "ts": a["ts"], "out": !outs.is_empty(), "pick": pick}));
    }
    Ok(out)
}

/// args: cases.ndjson report.json trace.ndjson
pub fn replay(args: &[String]) {
    let cases = read_cases(&args[0]);
    let mut rep = Report::new();
    let rt = tokio::runtime::Builder::new_current_thread().enable_all().build().unwrap();
    let mut traces = vec![];
    for c in &cases {
        let arr = c["arr"].as_array().unwrap();
        let w = c["w"].as_i64().unwrap();
        let b = buffer_block(w, arr);
        let outs = b.iter().filter(|r| r["out"] == true).count();
        rep.case(&json!({"w": w, "arr": arr.iter().map(|a| json!([a["src"], a["key"], a["ts"]])).collect::<Vec<_>>()}), outs > 0);
        traces.extend(b);
        match engine_block(&rt, w, arr) {
            Ok(b) => { rep.count("engine_blocks", 1); traces.extend(b); }
            Err(e) => rep.violation(&["C15"], &format!("engine join failed: {e}"), &json!({"arr": arr}), J::Null, J::Null),
        }
    }
    // directed: the recorded finding's own example (window 20): A@40, A@10, A@24 arrive in that order, then B@50 - A@40 is in the window
    {
        let arr: Vec<J> = [("A", 40), ("A", 10), ("A", 24), ("B", 50)].iter().map(|(s, t)| json!({"src": s, "key": 1, "ts": t})).collect();
        rep.case(&json!({"w": 20, "directed": "out-of-order arrivals then the other source"}), true);
        traces.extend(buffer_block(20, &arr));
    }
    // directed: a burst of one key that exceeds the buffer's per-key capacity (1000) twice over inside one window, then silence on
    // that source while event time passes the start of the burst by more than a window, then the other source: the newest burst events
    // are still inside the window and must be joined (4th argument = burst size; absent = no burst block)
    if let Some(n) = args.get(3).and_then(|s| s.parse::<i64>().ok()) {
        let w = 20i64;
        let mut arr: Vec<J> = (0..n).map(|i| json!({"src": "A", "key": 1, "ts": i * 10 / n})).collect();
        arr.push(json!({"src": "B", "key": 1, "ts": 25}));
        arr.push(json!({"src": "A", "key": 1, "ts": 26}));
        arr.push(json!({"src": "B", "key": 1, "ts": 27}));
        let b = buffer_block(w, &arr);
        rep.case(&json!({"w": w, "burst": n}), true);
        traces.extend(b);
        if let Ok(b) = engine_block(&rt, w, &arr) { rep.count("engine_blocks", 1); traces.extend(b); }
    }
    write_ndjson(&args[2], &traces);
    rep.write(&args[1]);
}
