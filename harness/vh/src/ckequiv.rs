//! C19: checkpoint -> serialise -> fresh engine -> restore -> continue is invisible in the output.
//! Cases (program class, parameters, stream) come from spec/checkpoint/CkptCases.tla; every cut of every stream is run.
use crate::util::*;
use chrono::{DateTime, Duration, TimeZone, Utc};
use serde_json::{json, Value as J};
use varpulis_runtime::codec::{deserialize, serialize, CheckpointFormat};
use varpulis_runtime::engine::Engine;
use varpulis_runtime::event::Event;
use varpulis_runtime::persistence::EngineCheckpoint;

fn t0() -> DateTime<Utc> { Utc.timestamp_opt(5_000_000, 0).unwrap() }

pub fn program(cls: &str, d: i64, s: i64) -> String {
    let agg = "    .aggregate(n: count(), sm: sum(id), f: first(id), l: last(id))\n    .emit(n: n, sm: sm, f: f, l: l)\n";
    match cls {
        "count" => format!("stream S = A\n    .window({d})\n{agg}"),
        "slidingcount" => format!("stream S = A\n    .window({d}, sliding: {s})\n{agg}"),
        "part_count" => format!("stream S = A\n    .partition_by(k)\n    .window({d})\n{agg}"),
        "part_slidingcount" => format!("stream S = A\n    .partition_by(k)\n    .window({d}, sliding: {s})\n{agg}"),
        "tumbling" => format!("stream S = A\n    .window({d}s)\n{agg}"),
        "sliding" => format!("stream S = A\n    .window({d}s, sliding: {s}s)\n{agg}"),
        "session" => format!("stream S = A\n    .window(session: {d}s)\n{agg}"),
        "seq2" => "stream S = A as a\n    -> B as b\n    .emit(ai: a.id, bi: b.id)\n".into(),
        "seq3ref" => "stream S = A as a\n    -> B where x == a.x as b\n    -> C as c\n    .emit(ai: a.id, bi: b.id, ci: c.id)\n".into(),
        // same program; the harness repeats every B of the case 8 times, so runs reach the engine's built-in cap of 20 Kleene events
        "kleene_long" => "stream S = A as a\n    -> all B as b\n    -> C as c\n    .emit(ai: a.id, bi: b.id, ci: c.id)\n".into(),
        "kleene" => "stream S = A as a\n    -> all B as b\n    -> C as c\n    .emit(ai: a.id, bi: b.id, ci: c.id)\n".into(),
        "kleene_self" => "stream S = A as a\n    -> all B where x > b.x as b\n    -> C as c\n    .emit(ai: a.id, bi: b.id, ci: c.id)\n".into(),
        "neg" => "stream S = A as a\n    -> B as b\n    .not(N)\n    .emit(ai: a.id, bi: b.id)\n".into(),
        "part_seq" => "stream S = A as a\n    -> B as b\n    .partition_by(k)\n    .emit(ai: a.id, bi: b.id)\n".into(),
        "join" => format!("stream SA = A\nstream SB = B\n\nstream S = join(SA, SB)\n    .on(SA.k == SB.k)\n    .window({}s)\n    .select(a: SA.id, b: SB.id)\n    .emit(a: a, b: b)\n", d + 1),
        "distinct_limit" => format!("stream S = A\n    .distinct(x)\n    .limit({})\n    .emit(id: id, x: x)\n", d + 1),
        "wm_tumbling" => format!("stream S = A\n    .watermark(out_of_order: 1s)\n    .window({}s)\n{agg}", d + 1),
        c => panic!("class {c}"),
    }
}

fn fmt(ev: &Event) -> String {
    let mut f: Vec<String> = ev.data.iter().filter(|(k, _)| &***k != "match_duration_ms").map(|(k, v)| format!("{k}={v}")).collect();
    f.sort();
    format!("{} {{{}}}", ev.event_type, f.join(","))
}

enum Op { Ev(Event), Wm(String, i64) }

fn ops_of(stream: &[J], repeat_b: usize) -> Vec<Op> {
    let mut t = 0i64;
    let mut id = 0i64;
    let mut out = vec![];
    for e in stream {
        t += e["dt"].as_i64().unwrap();
        let ts = t0() + Duration::seconds(t);
        if e["op"] == "wm" { out.push(Op::Wm("A".into(), ts.timestamp_millis())); continue; }
        let n = if e["type"] == "B" { repeat_b } else { 1 };
        for _ in 0..n {
            id += 1;
            out.push(Op::Ev(Event::new(e["type"].as_str().unwrap()).with_field("id", id).with_field("k", e["k"].as_i64().unwrap()).with_field("x", e["x"].as_i64().unwrap()).with_timestamp(ts)));
        }
    }
    out
}

fn run_cut(rt: &tokio::runtime::Runtime, src: &str, ops: &[Op], cut: Option<usize>) -> Result<Vec<String>, String> {
    let program = varpulis_parser::parse(src).map_err(|e| format!("parse: {e}"))?;
    let (tx, mut rx) = tokio::sync::mpsc::channel::<Event>(100000);
    let mut eng = Engine::new(tx.clone());
    eng.load(&program).map_err(|e| format!("load: {e}"))?;
    let mut out = Vec::new();
    for (i, op) in ops.iter().enumerate() {
        if Some(i) == cut {
            let cp = eng.create_checkpoint();
            let bytes = serialize(&cp, CheckpointFormat::Json).map_err(|e| format!("serialize: {e}"))?;
            let cp2: EngineCheckpoint = deserialize(&bytes).map_err(|e| format!("deserialize: {e}"))?;
            let mut fresh = Engine::new(tx.clone());
            fresh.load(&program).map_err(|e| format!("load: {e}"))?;
            fresh.restore_checkpoint(&cp2).map_err(|e| format!("restore: {e}"))?;
            eng = fresh;
        }
        let r = catch(|| match op {
            Op::Ev(e) => rt.block_on(eng.process(e.clone())),
            Op::Wm(s, ms) => rt.block_on(eng.advance_external_watermark(s, *ms)),
        });
        match r { Ok(Ok(())) => {} Ok(Err(e)) => return Err(format!("process: {e}")), Err(p) => return Err(format!("panic: {p}")) }
        while let Ok(o) = rx.try_recv() { out.push(fmt(&o)); }
    }
    Ok(out)
}

/// findings recorded for a program class (None = the class must pass strictly)
fn known_for(cls: &str) -> Option<&'static str> {
    match cls {
        "slidingcount" => Some("C19-sliding-count-slide-counter-reset"),
        "part_slidingcount" => Some("C19-partitioned-sliding-count-not-saved"),
        "kleene_self" => Some("C19-kleene-postponed-predicate-dropped"),
        _ => None,
    }
}

/// args: cases.ndjson report.json
pub fn replay(args: &[String]) {
    let cases = read_cases(&args[0]);
    let mut rep = Report::new();
    let rt = tokio::runtime::Builder::new_current_thread().enable_all().build().unwrap();
    for c in &cases {
        let cls = c["cls"].as_str().unwrap();
        let src = program(cls, c["par"]["d"].as_i64().unwrap(), c["par"]["s"].as_i64().unwrap());
        let stream = c["stream"].as_array().unwrap();
        let ops = ops_of(stream, if cls == "kleene_long" { 8 } else { 1 });
        let small = json!({"program": src, "stream": stream});
        let base = match run_cut(&rt, &src, &ops, None) {
            Ok(b) => b,
            Err(e) => { rep.case(&small, true); rep.violation(&["C19"], &format!("engine failed on the uninterrupted run: {e}"), &small, J::Null, J::Null); continue; }
        };
        rep.case(&small, !base.is_empty());
        rep.count(&format!("class_{cls}"), 1);
        let mut bad_cuts = vec![];
        for cut in 0..ops.len() {
            rep.count("cuts", 1);
            match run_cut(&rt, &src, &ops, Some(cut)) {
                Ok(o) if o == base => {}
                Ok(o) => bad_cuts.push(json!({"cut": cut, "got": o})),
                Err(e) => bad_cuts.push(json!({"cut": cut, "error": e})),
            }
        }
        if !bad_cuts.is_empty() {
            match known_for(cls) {
                Some(fid) => rep.known(&["C19"], fid, &format!("class {cls}: outputs differ after restore")),
                None => rep.violation(&["C19"], &format!("class {cls}: checkpoint/restore changes the remaining outputs"), &small, json!(base), json!(bad_cuts)),
            }
        }
    }
    rep.write(&args[1]);
}
