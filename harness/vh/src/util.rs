//! Shared helpers: ndjson case reader, report writer, tiny deterministic RNG.
use serde_json::{json, Value as J};
use std::collections::BTreeSet;
use std::io::{BufRead, BufReader, Write};

pub fn read_cases(path: &str) -> Vec<J> {
    let f = std::fs::File::open(path).unwrap_or_else(|e| panic!("open {path}: {e}"));
    BufReader::new(f)
        .lines()
        .map(|l| l.unwrap())
        .filter(|l| !l.trim().is_empty())
        .map(|l| serde_json::from_str(&l).unwrap_or_else(|e| panic!("bad case line: {e}: {l}")))
        .collect()
}

pub fn write_ndjson(path: &str, items: &[J]) {
    let mut f = std::io::BufWriter::new(std::fs::File::create(path).unwrap());
    for it in items {
        writeln!(f, "{}", it).unwrap();
    }
}

/// Report accumulated by a replay / record run; consumed by lib/vlib.py (Verdict.add_report).
#[derive(Default)]
pub struct Report {
    pub total: u64,
    pub nontrivial: BTreeSet<u64>,
    pub violations: Vec<J>,
    pub known: Vec<J>,
    pub drift: Vec<J>,
    pub samples: Vec<J>,
    pub counters: serde_json::Map<String, J>,
}

pub fn hash_json(v: &J) -> u64 {
    use std::hash::{Hash, Hasher};
    let mut h = std::collections::hash_map::DefaultHasher::new();
    v.to_string().hash(&mut h);
    h.finish()
}

impl Report {
    pub fn new() -> Self {
        Self::default()
    }
    pub fn case(&mut self, case: &J, nontrivial: bool) {
        self.total += 1;
        if nontrivial {
            self.nontrivial.insert(hash_json(case));
        }
        if self.samples.len() < 3 && nontrivial {
            self.samples.push(case.clone());
        }
    }
    pub fn violation(&mut self, props: &[&str], what: &str, case: &J, expected: J, got: J) {
        if self.violations.len() < 200 {
            self.violations.push(json!({"prop": props, "what": what, "case": case, "expected": expected, "got": got}));
        } else {
            self.count("violations_truncated", 1);
        }
    }
    pub fn known(&mut self, props: &[&str], finding: &str, what: &str) {
        for k in self.known.iter_mut() {
            if k["finding"] == finding && k["prop"] == json!(props) {
                k["count"] = json!(k["count"].as_u64().unwrap() + 1);
                return;
            }
        }
        self.known.push(json!({"prop": props, "finding": finding, "what": what, "count": 1}));
    }
    pub fn drift(&mut self, props: &[&str], what: &str, case: &J) {
        if self.drift.len() < 50 {
            self.drift.push(json!({"prop": props, "what": what, "case": case}));
        }
    }
    pub fn count(&mut self, key: &str, n: u64) {
        let cur = self.counters.get(key).and_then(|v| v.as_u64()).unwrap_or(0);
        self.counters.insert(key.to_string(), json!(cur + n));
    }
    pub fn write(&self, path: &str) {
        let j = json!({
            "total": self.total,
            "distinct_nontrivial": self.nontrivial.len(),
            "violations": self.violations,
            "known": self.known,
            "drift": self.drift,
            "samples": self.samples,
            "counters": self.counters,
        });
        std::fs::write(path, serde_json::to_string(&j).unwrap()).unwrap();
    }
}

/// xorshift64* — deterministic, seedable; no dependency on `rand`'s algorithm stability.
pub struct Rng(pub u64);
impl Rng {
    pub fn new(seed: u64) -> Self {
        Rng(seed.wrapping_mul(0x9E3779B97F4A7C15) | 1)
    }
    pub fn next(&mut self) -> u64 {
        let mut x = self.0;
        x ^= x >> 12;
        x ^= x << 25;
        x ^= x >> 27;
        self.0 = x;
        x.wrapping_mul(0x2545F4914F6CDD1D)
    }
    pub fn below(&mut self, n: u64) -> u64 {
        if n == 0 { 0 } else { self.next() % n }
    }
    pub fn pick<'a, T>(&mut self, xs: &'a [T]) -> &'a T {
        &xs[self.below(xs.len() as u64) as usize]
    }
    pub fn chance(&mut self, num: u64, den: u64) -> bool {
        self.below(den) < num
    }
}

pub fn seed_from_env() -> u64 {
    std::env::var("VERIF_SEED").ok().and_then(|s| s.parse().ok()).unwrap_or(1)
}

/// Run `f`, converting a panic into Err(message). Panics in code under test are data.
pub fn catch<T>(f: impl FnOnce() -> T) -> Result<T, String> {
    let prev = std::panic::take_hook();
    std::panic::set_hook(Box::new(|_| {}));
    let r = std::panic::catch_unwind(std::panic::AssertUnwindSafe(f));
    std::panic::set_hook(prev);
    r.map_err(|e| {
        if let Some(s) = e.downcast_ref::<&str>() {
            s.to_string()
        } else if let Some(s) = e.downcast_ref::<String>() {
            s.clone()
        } else {
            "panic".to_string()
        }
    })
}
