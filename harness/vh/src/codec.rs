//! C20: an engine checkpoint survives serialisation unchanged (spec/checkpoint/ValueCodec.tla enumerates section x value shape x time).
use crate::util::*;
use chrono::{Duration, TimeZone, Utc};
use serde_json::{json, Value as J};
use std::sync::Arc;
use varpulis_core::value::FxIndexMap;
use varpulis_core::Value;
use varpulis_runtime::codec::{deserialize, serialize, CheckpointFormat};
use varpulis_runtime::engine::Engine;
use varpulis_runtime::event::Event;
use varpulis_runtime::persistence::EngineCheckpoint;

fn mapv(entries: Vec<(&str, Value)>) -> Value {
    let mut m: FxIndexMap<Arc<str>, Value> = FxIndexMap::default();
    for (k, v) in entries { m.insert(k.into(), v); }
    Value::map(m)
}
fn shape(s: &str) -> Value {
    match s {
        "null" => Value::Null, "true" => Value::Bool(true), "i0" => Value::Int(0), "imax" => Value::Int(i64::MAX), "imin" => Value::Int(i64::MIN),
        "f15" => Value::Float(1.5), "fneg0" => Value::Float(-0.0), "nan" => Value::Float(f64::NAN), "inf" => Value::Float(f64::INFINITY), "ninf" => Value::Float(f64::NEG_INFINITY),
        "s_empty" => Value::Str("".into()), "s_unicode" => Value::Str("h\u{e9}llo \u{4e16}\u{754c} \u{1f600}".into()), "s_quote" => Value::Str("a\"b\\c\n".into()),
        "ts_ns" => Value::Timestamp(1_700_000_000_123_456_789), "dur_big" => Value::Duration(u64::MAX),
        "arr_empty" => Value::array(vec![]), "map_empty" => mapv(vec![]),
        "arr_i0" => Value::array(vec![Value::Int(0)]), "arr_nan" => Value::array(vec![Value::Float(f64::NAN)]),
        "arr_ts_ns" => Value::array(vec![Value::Timestamp(1_700_000_000_123_456_789)]), "arr_s_unicode" => Value::array(vec![Value::Str("\u{4e16}".into())]),
        "map_i0" => mapv(vec![("a", Value::Int(0))]), "map_nan" => mapv(vec![("a", Value::Float(f64::NAN))]),
        "map_ts_ns" => mapv(vec![("a", Value::Timestamp(1_700_000_000_123_456_789))]), "map_s_unicode" => mapv(vec![("\u{e9}", Value::Str("\u{4e16}".into()))]),
        "arr_arr_i0" => Value::array(vec![Value::array(vec![Value::Int(0)])]), "map_map_i0" => mapv(vec![("m", mapv(vec![("a", Value::Int(0))]))]),
        "arr_map_ts" => Value::array(vec![mapv(vec![("t", Value::Timestamp(5)), ("d", Value::Duration(7))])]),
        x => panic!("shape {x}"),
    }
}

fn program(sec: &str) -> &'static str {
    match sec {
        "window" => "stream S = A\n    .window(100)\n    .aggregate(n: count())\n    .emit(n: n)\n",
        "sequence" => "stream S = A as a\n    -> B as b\n    .emit(ai: a.id)\n",
        "join" => "stream SA = A\nstream SB = B\n\nstream S = join(SA, SB)\n    .on(SA.k == SB.k)\n    .window(1000s)\n    .select(a: SA.id)\n    .emit(a: a)\n",
        _ => "var v = 0\nstream S = A\n    .emit(id: id)\n",
    }
}

/// Canonical text of a checkpoint for comparison (Debug of the deserialised structure; HashMap order removed by sorting lines of the pretty form)
fn canon<T: std::fmt::Debug>(v: &T) -> String {
    let mut lines: Vec<String> = format!("{:#?}", v).lines().map(|l| l.trim().trim_end_matches(',').to_string()).collect();
    lines.sort();
    lines.join("\n")
}

/// args: cases.ndjson report.json
pub fn replay(args: &[String]) {
    let cases = read_cases(&args[0]);
    let mut rep = Report::new();
    let rt = tokio::runtime::Builder::new_current_thread().enable_all().build().unwrap();
    for c in &cases {
        let sec = c["sec"].as_str().unwrap();
        let sh = c["shape"].as_str().unwrap();
        let small = json!({"sec": sec, "shape": sh, "tm": c["tm"]});
        let r = catch(|| -> Result<Vec<(Vec<&'static str>, String, J, J)>, String> {
            let mut v = vec![];
            let src = program(sec);
            let prog = varpulis_parser::parse(src).map_err(|e| format!("parse: {e}"))?;
            let (tx, _rx) = tokio::sync::mpsc::channel::<Event>(1000);
            let mut eng = Engine::new(tx.clone());
            eng.load(&prog).map_err(|e| format!("load: {e}"))?;
            let mut ts = Utc.timestamp_opt(1_700_000_000, 0).unwrap();
            if c["tm"] == "submilli" { ts = ts + Duration::nanoseconds(123_456_789); }
            let ev = Event::new("A").with_field("id", 1i64).with_field("k", 1i64).with_field("v", shape(sh)).with_timestamp(ts);
            rt.block_on(eng.process(ev.clone())).map_err(|e| format!("process: {e}"))?;
            if sec == "variable" { let _ = eng.set_variable("v", shape(sh)); }
            let cp = eng.create_checkpoint();
            let bytes = match serialize(&cp, CheckpointFormat::Json) {
                Ok(b) => b,
                Err(e) => { v.push((vec!["C20"], format!("checkpoint cannot be serialised: {e}"), J::Null, J::Null)); return Ok(v); }
            };
            let cp2: EngineCheckpoint = match deserialize(&bytes) {
                Ok(x) => x,
                Err(e) => { v.push((vec!["C20"], format!("serialised checkpoint cannot be read back: {e}"), J::Null, J::Null)); return Ok(v); }
            };
            if canon(&cp) != canon(&cp2) {
                v.push((vec!["C20"], "checkpoint differs after serialise/deserialise".into(), json!(canon(&cp).chars().take(1500).collect::<String>()), json!(canon(&cp2).chars().take(1500).collect::<String>())));
            }
            // restored events: restore into a fresh engine and checkpoint again
            let mut fresh = Engine::new(tx);
            fresh.load(&prog).map_err(|e| format!("load: {e}"))?;
            match fresh.restore_checkpoint(&cp2) {
                Err(e) => v.push((vec!["C20", "C19"], format!("restore failed: {e}"), J::Null, J::Null)),
                Ok(()) => {
                    let cp3 = fresh.create_checkpoint();
                    if canon(&cp3) != canon(&cp) && canon(&cp3) != canon(&cp2) { /* statistics counters may differ; compare event payloads only */ }
                    let ev_text = |c: &EngineCheckpoint| -> Vec<String> { let t = format!("{:#?}", c); t.lines().filter(|l| l.contains("Timestamp(") || l.contains("Float(") || l.contains("Duration(") || l.contains("String(") || l.contains("timestamp_ms")).map(|l| l.trim().to_string()).collect::<std::collections::BTreeSet<_>>().into_iter().collect() };
                    if ev_text(&cp3) != ev_text(&cp) {
                        v.push((vec!["C20"], "events restored from the checkpoint differ from the checkpointed ones".into(), json!(ev_text(&cp)), json!(ev_text(&cp3))));
                    }
                }
            }
            // sub-millisecond part of the event time
            if c["tm"] == "submilli" {
                let text = format!("{:?}", cp);
                if !text.contains("123456") { v.push((vec!["C20"], "sub-millisecond part of the event timestamp is not in the checkpoint".into(), json!("…123456789 ns"), json!("timestamp_ms only"))); }
            }
            Ok(v)
        });
        rep.case(&small, true);
        match r {
            Err(p) => rep.violation(&["C20"], &format!("panic: {p}"), &small, J::Null, J::Null),
            Ok(Err(e)) => rep.violation(&["C20"], &format!("engine error: {e}"), &small, J::Null, J::Null),
            Ok(Ok(vs)) => for (props, what, e, g) in vs {
                let nonfinite = !c["jsonok"].as_bool().unwrap();
                if nonfinite && (what.contains("cannot be read back") || what.contains("cannot be serialised") || what.contains("differs")) {
                    rep.known(&props, "C20-json-non-finite-floats", "NaN / infinities do not survive the JSON checkpoint format");
                } else if what.contains("sub-millisecond") {
                    rep.known(&props, "C20-sub-millisecond-timestamps-truncated", "event timestamps are stored in whole milliseconds");
                } else {
                    rep.violation(&props, &what, &small, e, g);
                }
            },
        }
    }
    rep.write(&args[1]);
}
