//! C31: spec/pathfs/PathFs.tla requests against the real `validate_path` on a materialised tree.
use crate::util::*;
use serde_json::{json, Value as J};
use std::os::unix::fs::symlink;
use std::path::{Path, PathBuf};

fn build_tree(root: &Path) {
    for d in ["wd/sub", "wd_backup", "out"] { std::fs::create_dir_all(root.join(d)).unwrap(); }
    for f in ["wd/f", "wd/sub/g", "wd_backup/h", "out/o"] { std::fs::write(root.join(f), b"x").unwrap(); }
    symlink("sub", root.join("wd/lin")).unwrap();
    symlink("../out", root.join("wd/lout")).unwrap();
    symlink("../wd_backup", root.join("wd/lback")).unwrap();
    symlink(root.join("out/o"), root.join("wd/labs")).unwrap();
    symlink("..", root.join("wd/sub/lup")).unwrap();
    symlink(root.join("wd/f"), root.join("wd/lself")).unwrap();
    symlink("../wd", root.join("out/lwd")).unwrap();
}

/// args: cases.ndjson report.json
pub fn replay(args: &[String]) {
    let cases = read_cases(&args[0]);
    let mut rep = Report::new();
    let dir = tempfile::tempdir().unwrap();
    let root = dir.path().canonicalize().unwrap();
    build_tree(&root);
    let wd = root.join("wd");
    for c in &cases {
        let segs: Vec<&str> = c["segs"].as_array().unwrap().iter().map(|s| s.as_str().unwrap()).collect();
        let abs = c["abs"].as_bool().unwrap();
        let req = if abs { format!("{}/{}", root.display(), segs.join("/")) } else { segs.join("/") };
        let small = json!({"request": if abs { format!("<root>/{}", segs.join("/")) } else { req.clone() }});
        rep.case(&small, c["exists"].as_bool().unwrap());
        let r = catch(|| varpulis_cli::security::validate_path(&req, &wd));
        let r = match r { Ok(r) => r, Err(p) => { rep.violation(&["C31"], &format!("validate_path panicked: {p}"), &small, J::Null, J::Null); continue; } };
        let model_res: Vec<&str> = c["res"].as_array().unwrap().iter().map(|s| s.as_str().unwrap()).collect();
        let model_path: Option<PathBuf> = if c["exists"].as_bool().unwrap() { Some(model_res.iter().fold(root.clone(), |p, s| p.join(s))) } else { None };
        match r {
            Ok(p) => {
                rep.count("accepted", 1);
                // the property: an accepted path resolves inside the work directory (component-wise)
                let real = p.canonicalize().unwrap_or(p.clone());
                if !real.starts_with(&wd) || !c["inside"].as_bool().unwrap() {
                    rep.violation(&["C31"], "accepted path resolves outside the work directory", &small, json!({"model_resolves_to": model_res, "inside": c["inside"]}), json!(real.strip_prefix(&root).map(|x| x.display().to_string()).unwrap_or_else(|_| real.display().to_string())));
                } else if Some(&real) != model_path.as_ref() {
                    rep.drift(&["C31"], "accepted path resolves inside the work directory but not where the model's file system resolves it", &small);
                }
            }
            Err(_) => {
                if c["inside"].as_bool().unwrap() { rep.count("rejected_although_inside", 1); } else { rep.count("rejected", 1); }
            }
        }
    }
    rep.write(&args[1]);
}
