//! C39: spec/connector/ConnInject.tla values through the real to_vpl_declaration / inject_connectors / parser / engine loader.
use crate::util::*;
use serde_json::{json, Value as J};
use std::collections::HashMap;
use varpulis_cluster::connector_config::{inject_connectors, validate_connector, ClusterConnector};
use varpulis_core::ast::{ConfigValue, Stmt};

const RICH: &str = "event A:\n    x: int\n    k: str\n\nfn twice(v: int) -> int:\n    return v * 2\n\nconst LIMIT = 3\n\nstream S = A.from(C1, topic: \"in/#\")\n    .where(x > LIMIT and k != \"a\\\"b\")\n    .window(3)\n    .aggregate(n: count(), s: sum(twice(x)))\n    .emit(n: n, s: s)\n\nstream T = S\n    .where(n > 1)\n    .to(C2)\n";

fn template(t: &str) -> &'static str {
    match t {
        "from" => "stream S = A.from(C1, topic: \"in\")\n    .where(x > 1)\n    .emit(x: x)\n",
        "to" => "stream S = A\n    .where(x > 1)\n    .emit(x: x)\n    .to(C1)\n",
        "both" => "stream S = A.from(C1, topic: \"in\")\n    .where(x > 1)\n    .emit(x: x)\n    .to(C2)\n",
        "declared" => "connector C1 = mqtt(host: \"inline-host\", port: 99)\n\nstream S = A.from(C1, topic: \"in\")\n    .emit(x: x)\n    .to(C2)\n",
        "unknown" => "stream S = A.from(C9, topic: \"in\")\n    .emit(x: x)\n    .to(C2)\n",
        "comment" => "# data used to come in with .from(C1, topic: \"old\")\nstream S = A\n    .where(x > 1)\n    .emit(x: x)\n    .to(C2)\n",
        "rich" => RICH,
        "append" => "stream S = A.from(C1, topic: \"in\")\n    .emit(x: x)\n",
        t => panic!("template {t}"),
    }
}

fn strip_spans(v: &mut J) {
    match v {
        J::Object(m) => { m.remove("span"); for (_, x) in m.iter_mut() { strip_spans(x); } }
        J::Array(a) => for x in a { strip_spans(x); },
        _ => {}
    }
}

fn cv_string(v: &ConfigValue) -> Option<String> {
    Some(match v {
        ConfigValue::Str(s) | ConfigValue::Ident(s) => s.clone(),
        ConfigValue::Int(i) => i.to_string(),
        ConfigValue::Float(f) => f.to_string(),
        ConfigValue::Bool(b) => b.to_string(),
        ConfigValue::Duration(d) => format!("{d}ns"),
        _ => return None,
    })
}

/// args: cases.ndjson report.json
pub fn replay(args: &[String]) {
    let cases = read_cases(&args[0]);
    let mut rep = Report::new();
    for c in &cases {
        let value: String = c["value"].as_array().map(|a| a.iter().map(|x| x.as_str().unwrap()).collect()).unwrap_or_default();
        let tname = c["tmpl"].as_str().unwrap();
        let cls = c["cls"].as_str().unwrap();
        let src = template(tname);
        // C1: an mqtt connector whose every parameter carries the value under test in a different role; C2: a kafka one
        let mut p1: HashMap<String, String> = HashMap::new();
        p1.insert("host".into(), value.clone());
        p1.insert("port".into(), "1883".into());
        p1.insert("client_id".into(), value.clone());
        p1.insert("password".into(), value.clone());
        if tname == "append" { p1.insert("client_id_mode".into(), "append_pipeline".into()); }
        let mut p2: HashMap<String, String> = HashMap::new();
        p2.insert("brokers".into(), "k1:9092".into());
        p2.insert("group_id".into(), value.clone());
        p2.insert("linger_ms".into(), "05".into());
        let mut cluster: HashMap<String, ClusterConnector> = HashMap::new();
        cluster.insert("C1".into(), ClusterConnector { name: "C1".into(), connector_type: "mqtt".into(), params: p1, description: None });
        cluster.insert("C2".into(), ClusterConnector { name: "C2".into(), connector_type: "kafka".into(), params: p2, description: Some(value.clone()) });
        let small = json!({"value": value, "template": tname, "source": src, "class": cls});
        if cluster.values().any(|c| validate_connector(c).is_err()) { rep.count("rejected_by_validation", 1); continue; }
        rep.case(&small, cls == "exact" && !value.is_empty());
        let res = catch(|| {
            let (injected, _lines) = inject_connectors(src, &cluster);
            let orig = varpulis_parser::parse(src).map_err(|e| format!("template does not parse: {e}"))?;
            let prog = varpulis_parser::parse(&injected).map_err(|e| format!("injected source does not parse: {e}\n{injected}"))?;
            // declared connectors of the original and the injected program
            let decls = |p: &varpulis_core::ast::Program| -> Vec<(String, String, Vec<(String, Option<String>)>)> {
                p.statements.iter().filter_map(|s| match &s.node {
                    Stmt::ConnectorDecl { name, connector_type, params } => Some((name.clone(), connector_type.clone(), params.iter().map(|p| (p.name.clone(), cv_string(&p.value))).collect())),
                    _ => None,
                }).collect()
            };
            let d0 = decls(&orig);
            let d1 = decls(&prog);
            let mut problems: Vec<String> = vec![];
            // which connectors the pipeline uses without declaring them (from the AST, not from text)
            let mut used: Vec<String> = vec![];
            for s in &orig.statements {
                if let Stmt::StreamDecl { source, ops, .. } = &s.node {
                    if let varpulis_core::ast::StreamSource::FromConnector { connector_name, .. } = source { used.push(connector_name.clone()); }
                    for o in ops { if let varpulis_core::ast::StreamOp::To { connector_name, .. } = o { used.push(connector_name.clone()); } }
                }
            }
            for u in &used {
                if d0.iter().any(|d| &d.0 == u) || !cluster.contains_key(u) { continue; }
                if !d1.iter().any(|d| &d.0 == u) { problems.push(format!("connector {u} is used, stored in the cluster and not declared, but no declaration was injected")); }
            }
            // every injected declaration declares exactly the stored parameters
            for (name, ty, params) in &d1 {
                if d0.iter().any(|d| &d.0 == name) { continue; }
                let Some(st) = cluster.get(name) else { problems.push(format!("declaration of unknown connector {name} appeared")); continue };
                if &st.connector_type != ty { problems.push(format!("{name}: type {ty} instead of {}", st.connector_type)); }
                let mut got: Vec<(String, Option<String>)> = params.clone();
                got.sort();
                let mut want: Vec<(String, Option<String>)> = st.params.iter().map(|(k, v)| (k.clone(), Some(v.clone()))).collect();
                want.sort();
                if got != want { problems.push(format!("{name}: declared parameters {got:?}, stored {want:?}")); }
            }
            if d1.len() < d0.len() || d0.iter().any(|d| !d1.contains(d)) { problems.push("an inline declaration of the pipeline changed".into()); }
            // the rest of the program is unchanged (spans aside)
            if tname != "append" {
                let rest = |p: &varpulis_core::ast::Program, skip: &dyn Fn(&str) -> bool| -> J {
                    let mut v = J::Array(p.statements.iter().filter(|s| !matches!(&s.node, Stmt::ConnectorDecl { name, .. } if skip(name))).map(|s| serde_json::to_value(&s.node).unwrap()).collect());
                    strip_spans(&mut v);
                    v
                };
                let keep0 = |_: &str| false;
                let injected_names: Vec<String> = d1.iter().filter(|d| !d0.iter().any(|x| x.0 == d.0)).map(|d| d.0.clone()).collect();
                let skip1 = |n: &str| injected_names.iter().any(|x| x == n);
                if rest(&orig, &keep0) != rest(&prog, &skip1) { problems.push("the rest of the pipeline parses differently after injection".into()); }
            }
            // through the real engine loader: the connector configuration the runtime will use
            let (tx, _rx) = tokio::sync::mpsc::channel(8);
            let mut e = varpulis_runtime::engine::Engine::new(tx);
            if let Err(x) = e.load(&prog) { problems.push(format!("engine refuses the injected program: {x}")); }
            else {
                for (name, _, _) in &d1 {
                    if d0.iter().any(|d| &d.0 == name) { continue; }
                    let (Some(st), Some(cfg)) = (cluster.get(name), e.get_connector(name)) else { continue };
                    for (k, v) in &st.params {
                        let got = match k.as_str() { "host" | "brokers" | "url" | "servers" => Some(cfg.url.clone()), "topic" => cfg.topic.clone(), k => cfg.properties.get(k).cloned() };
                        if got.as_ref() != Some(v) { problems.push(format!("runtime config of {name}: {k} = {got:?}, stored {v:?}")); }
                    }
                }
            }
            Ok::<_, String>((problems, injected))
        });
        let fail: Option<(String, String)> = match res {
            Ok(Ok((p, inj))) => if p.is_empty() { None } else { Some((p.join("; "), inj)) },
            Ok(Err(e)) => Some((e, String::new())),
            Err(p) => Some((format!("panic: {p}"), String::new())),
        };
        rep.count(&format!("tmpl_{tname}"), 1);
        if let Some((what, inj)) = fail {
            if cls == "unrepresentable" { rep.known(&["C39"], "C39-unescaped-quote-or-trailing-backslash", &what.chars().take(160).collect::<String>()); }
            else { rep.violation(&["C39"], "injected connector declaration does not carry the stored parameters", &small, json!("every stored parameter declared with exactly its value; rest unchanged"), json!({"problem": what, "injected": inj})); }
        } else if cls == "unrepresentable" { rep.count("unrepresentable_but_ok", 1); }
    }
    rep.write(&args[1]);
}
