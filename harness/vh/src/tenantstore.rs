//! C22: spec/tenant/TenantStore.tla histories on a real TenantManager over a store that dies at the k-th write (every k),
//! then recovery on the frozen store contents.
use crate::util::*;
use serde_json::{json, Value as J};
use std::collections::BTreeMap;
use std::sync::atomic::{AtomicUsize, Ordering};
use std::sync::Arc;
use varpulis_runtime::persistence::{Checkpoint, FileStore, MemoryStore, StateStore, StoreError};
use varpulis_runtime::tenant::{TenantId, TenantManager, TenantQuota};

struct Crashy { inner: Arc<dyn StateStore>, writes: AtomicUsize, limit: usize, dir: Option<std::path::PathBuf> }
impl Crashy { fn hit(&self) -> Result<(), StoreError> { let n = self.writes.fetch_add(1, Ordering::SeqCst); if n >= self.limit { Err(StoreError::IoError("process crashed (harness)".into())) } else { Ok(()) } } }
impl StateStore for Crashy {
    fn save_checkpoint(&self, c: &Checkpoint) -> Result<(), StoreError> { self.hit()?; self.inner.save_checkpoint(c) }
    fn load_latest_checkpoint(&self) -> Result<Option<Checkpoint>, StoreError> { self.inner.load_latest_checkpoint() }
    fn load_checkpoint(&self, id: u64) -> Result<Option<Checkpoint>, StoreError> { self.inner.load_checkpoint(id) }
    fn list_checkpoints(&self) -> Result<Vec<u64>, StoreError> { self.inner.list_checkpoints() }
    fn prune_checkpoints(&self, k: usize) -> Result<usize, StoreError> { self.inner.prune_checkpoints(k) }
    fn put(&self, k: &str, v: &[u8]) -> Result<(), StoreError> {
        if let Err(e) = self.hit() {
            // on a real directory: the process dies inside FileStore::put after the temp file was written and before the rename
            if let Some(d) = &self.dir {
                let path = d.join(k.replace(':', std::path::MAIN_SEPARATOR_STR));
                if let Some(parent) = path.parent() { let _ = std::fs::create_dir_all(parent); }
                let _ = std::fs::write(path.with_extension("tmp"), v);
            }
            return Err(e);
        }
        self.inner.put(k, v)
    }
    fn get(&self, k: &str) -> Result<Option<Vec<u8>>, StoreError> { self.inner.get(k) }
    fn delete(&self, k: &str) -> Result<(), StoreError> { self.hit()?; self.inner.delete(k) }
    fn flush(&self) -> Result<(), StoreError> { Ok(()) }
}

fn source(p: u64, s: u64) -> String {
    match s {
        0 => format!("stream S{p} = A\n    .emit(v: {p})\n"),
        1 => format!("stream S{p} = A\n    .distinct(k)\n    .emit(v: {p})\n"),
        2 => format!("stream S{p} = A\n    .limit(5)\n    .emit(v: {p})\n"),
        _ => format!("stream S{p} = A as a\n    -> B as b\n    .emit(v: a.x)\n"),
    }
}

/// tenant name -> (api key, pipeline name -> (source, status))
type Snap = BTreeMap<String, (String, BTreeMap<String, (String, String)>)>;
fn snap(m: &TenantManager) -> Snap {
    m.list_tenants().iter().map(|t| (t.name.clone(), (t.api_key.clone(), t.pipelines.values().map(|p| (p.name.clone(), (p.source.clone(), p.status.to_string()))).collect()))).collect()
}
/// the same shape from the model's abstract state
/// TLC prints a function over 1..n as a JSON array: normalise arrays and objects to (key, value) pairs
fn entries(v: &J) -> Vec<(String, J)> {
    match v {
        J::Array(a) => a.iter().enumerate().map(|(i, x)| ((i + 1).to_string(), x.clone())).collect(),
        J::Object(o) => o.iter().map(|(k, x)| (k.clone(), x.clone())).collect(),
        _ => vec![],
    }
}
fn model_snap(st: &J) -> Snap {
    let mut out = Snap::new();
    for (t, v) in entries(st) {
        if !v["exists"].as_bool().unwrap_or(false) { continue; }
        let mut pl = BTreeMap::new();
        for (p, d) in entries(&v["pl"]) {
            if d["exists"].as_bool().unwrap_or(false) { pl.insert(format!("p{p}"), (source(p.parse().unwrap(), d["src"].as_u64().unwrap()), "running".to_string())); }
        }
        out.insert(format!("t{t}"), (format!("key-{t}"), pl));
    }
    out
}
fn norm(s: &Snap) -> BTreeMap<String, (String, BTreeMap<String, String>)> {
    s.iter().map(|(t, (k, pl))| (t.clone(), (k.clone(), pl.iter().map(|(p, (src, _))| (p.clone(), src.clone())).collect()))).collect()
}

async fn apply(m: &mut TenantManager, ids: &mut BTreeMap<u64, TenantId>, pids: &mut BTreeMap<(u64, u64), String>, op: &J) -> bool {
    let (t, p, s) = (op["t"].as_u64().unwrap(), op["p"].as_u64().unwrap(), op["src"].as_u64().unwrap());
    match op["op"].as_str().unwrap() {
        "create" => match m.create_tenant(format!("t{t}"), format!("key-{t}"), TenantQuota::default()) { Ok(id) => { ids.insert(t, id); true } Err(_) => false },
        "delete_tenant" => { let Some(id) = ids.remove(&t) else { return false }; pids.retain(|k, _| k.0 != t); m.remove_tenant(&id).is_ok() }
        "deploy" => { let Some(id) = ids.get(&t).cloned() else { return false };
            match m.deploy_pipeline_on_tenant(&id, format!("p{p}"), source(p, s)).await { Ok(pid) => { pids.insert((t, p), pid); m.persist_if_needed(&id); true } Err(_) => false } }
        "remove" => { let Some(id) = ids.get(&t).cloned() else { return false }; let Some(pid) = pids.remove(&(t, p)) else { return false };
            let ok = m.get_tenant_mut(&id).map(|x| x.remove_pipeline(&pid).is_ok()).unwrap_or(false); m.persist_if_needed(&id); ok }
        "reload" => { let Some(id) = ids.get(&t).cloned() else { return false }; let Some(pid) = pids.get(&(t, p)).cloned() else { return false };
            let ok = match m.get_tenant_mut(&id) { Some(x) => x.reload_pipeline(&pid, source(p, s)).await.is_ok(), None => false }; m.persist_if_needed(&id); ok }
        o => panic!("op {o}"),
    }
}

/// args: cases.ndjson report.json
pub fn replay(args: &[String]) {
    let cases = read_cases(&args[0]);
    let mut rep = Report::new();
    let rt = tokio::runtime::Builder::new_current_thread().enable_all().build().unwrap();
    for c in &cases {
        let hist = c["hist"].as_array().unwrap();
        let states = c["states"].as_array().unwrap();
        let small = json!({"hist": hist.iter().map(|h| json!([h["op"], h["t"], h["p"], h["src"]])).collect::<Vec<_>>()});
        rep.case(&small, true);
        let mut k = 0usize;
        loop {
            // crash point `limit`, in three modes: in-memory store; FileStore directory, retrying the crashed operation after the restart;
            // FileStore directory, going on with the removals / reloads that follow it (creations are left out: after a skipped removal they
            // would create a second pipeline of the same name, which this harness's by-name projection cannot tell apart)
            let (limit, mode) = (k / 3, k % 3);
            let res = catch(|| rt.block_on(async {
                // every second crash point runs on a real FileStore directory (with the temp file a crashed put leaves behind)
                let tmpdir = tempfile::tempdir().unwrap();
                let on_disk = mode > 0;
                let inner: Arc<dyn StateStore> = if on_disk { Arc::new(FileStore::open(tmpdir.path()).unwrap()) } else { Arc::new(MemoryStore::new()) };
                let store = Arc::new(Crashy { inner: inner.clone(), writes: AtomicUsize::new(0), limit, dir: if on_disk { Some(tmpdir.path().to_path_buf()) } else { None } });
                let mut m = TenantManager::with_store(store.clone());
                let (mut ids, mut pids) = (BTreeMap::new(), BTreeMap::new());
                let mut done = 0usize;              // operations fully acknowledged
                let mut crashed_in: Option<usize> = None;
                let mut op_failed = None;
                for (i, op) in hist.iter().enumerate() {
                    let before = store.writes.load(Ordering::SeqCst);
                    let applied = apply(&mut m, &mut ids, &mut pids, op).await;
                    let after = store.writes.load(Ordering::SeqCst);
                    if after > limit && after > before { crashed_in = Some(i); break; }
                    if !applied { op_failed = Some(i); break; }
                    // the live manager must show the model's state after every acknowledged operation
                    if norm(&snap(&m)) != norm(&model_snap(&states[i])) { op_failed = Some(i); break; }
                    done = i + 1;
                }
                let mut m2 = TenantManager::with_store(inner.clone());
                let rec_ok = m2.recover().is_ok();
                let rec = norm(&snap(&m2));
                // life goes on after the restart: when the in-flight operation left no trace, the rest of the history is applied to the
                // recovered manager (every step must be acknowledged and show the model's state) and a second restart must show the end state
                let mut second: Option<(bool, J)> = None;
                let acked_now = if done == 0 { None } else { Some(norm(&model_snap(&states[done - 1]))) };
                if let (Some(ci), true) = (crashed_in, rec_ok) {
                    if acked_now.as_ref().map(|a| a == &rec).unwrap_or(rec.is_empty()) {
                        // (an operation the recovered manager refuses is simply not acknowledged; what counts is that everything the
                        // manager shows after the acknowledged ones is what a second restart shows)
                        let mut nack = 0;
                        for op in hist.iter().skip(if mode == 2 { ci + 1 } else { ci }).filter(|o| mode != 2 || matches!(o["op"].as_str(), Some("remove") | Some("delete_tenant") | Some("reload"))) { if apply(&mut m2, &mut ids, &mut pids, op).await { nack += 1; } else { break; } }   // stop at the first refusal: later operations of the history assume it
                        let live = norm(&snap(&m2));
                        let mut m3 = TenantManager::with_store(inner.clone());
                        let ok3 = m3.recover().is_ok();
                        let rec3 = norm(&snap(&m3));
                        second = Some((ok3 && rec3 == live, json!({"acknowledged_after_restart": nack, "live": live, "recover_ok": ok3, "recovered": rec3})));
                    }
                }
                (done, crashed_in, op_failed, rec_ok, rec, store.writes.load(Ordering::SeqCst), second)
            }));
            let (done, crashed_in, op_failed, rec_ok, rec, writes, second) = match res { Ok(x) => x, Err(p) => { rep.violation(&["C22"], &format!("tenant manager panicked: {p}"), &small, J::Null, J::Null); break; } };
            rep.count("crash_points", 1);
            if let Some(i) = op_failed {
                rep.violation(&["C22", "C28"], "an accepted management operation failed or left another state than acknowledged (no crash involved)", &json!({"hist": small["hist"], "op_index": i}), J::Null, J::Null);
                break;
            }
            let empty = json!({"1": {"exists": false, "pl": {}}, "2": {"exists": false, "pl": {}}});
            let acked = if done == 0 { norm(&model_snap(&empty)) } else { norm(&model_snap(&states[done - 1])) };
            let inflight = crashed_in.map(|i| norm(&model_snap(&states[i])));
            let ok = rec_ok && (rec == acked || inflight.as_ref().map(|s| &rec == s).unwrap_or(false));
            if !ok {
                rep.violation(&["C22"], "recovered tenants / keys / pipelines differ from the acknowledged state (plus at most the in-flight operation)", &json!({"hist": small["hist"], "crash_after_write": limit, "crashed_in_op": crashed_in}),
                              json!({"acknowledged": acked, "in_flight_applied": inflight}), json!({"recover_ok": rec_ok, "recovered": rec}));
                break;
            }
            if let Some((false, got)) = second {
                rep.violation(&["C22"], "after a crash and restart, what the manager acknowledged and shows does not survive a second restart", &json!({"hist": small["hist"], "crash_after_write": limit}), json!("second restart shows the live state"), got);
                break;
            }
            if second.is_some() { rep.count("continued_after_restart", 1); }
            if crashed_in.is_none() && writes <= limit { break; }   // the whole history ran without reaching the crash point
            k += 1;
            if limit > 200 { break; }
        }
    }
    rep.write(&args[1]);
}
