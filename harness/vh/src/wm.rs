//! Binding of spec/watermark/Watermark.tla to PerSourceWatermarkTracker and to the engine's late-data gate.
use crate::util::*;
use chrono::{DateTime, Duration, TimeZone, Utc};
use serde_json::{json, Value as J};
use varpulis_runtime::event::Event;
use varpulis_runtime::watermark::PerSourceWatermarkTracker;

const SRCS: [(&str, i64); 3] = [("a", 0), ("b", 1), ("c", 2)];
fn t0() -> DateTime<Utc> { Utc.timestamp_opt(4_000_000, 0).unwrap() }
fn rel(ms: Option<i64>) -> i64 { ms.map(|m| (m - t0().timestamp_millis()) / 1000).unwrap_or(-1000) }

fn tracker_block(hist: &[J]) -> Vec<J> {
    let mut tr = PerSourceWatermarkTracker::new();
    for (s, o) in SRCS { tr.register_source(s, Duration::seconds(o)); }
    let mut out = vec![json!({"ev": "reset"})];
    for h in hist {
        let s = h["s"].as_str().unwrap();
        let t = t0() + Duration::seconds(h["t"].as_i64().unwrap());
        if h["op"] == "obs" { tr.observe_event(s, t); } else { tr.advance_source_watermark(s, t); }
        let cp = tr.checkpoint();
        let mut wm = serde_json::Map::new();
        for (src, _) in SRCS { wm.insert(src.into(), json!(rel(cp.sources.get(src).and_then(|x| x.watermark_ms)))); }
        out.push(json!({"ev": "op", "op": h["op"], "s": s, "t": h["t"], "wm": wm, "eff": rel(tr.effective_watermark().map(|w| w.timestamp_millis()))}));
    }
    out
}

/// Engine level: three streams, one per source type, out-of-orderness 0/1/2 s, allowed lateness 1 s.
fn engine_block(rt: &tokio::runtime::Runtime, hist: &[J]) -> Result<Vec<J>, String> {
    let mut vpl = String::new();
    for (s, o) in SRCS { vpl.push_str(&format!("stream S{s} = {s}\n    .watermark(out_of_order: {o}s)\n    .allowed_lateness(1s)\n    .emit(id: id)\n\n")); }
    let program = varpulis_parser::parse(&vpl).map_err(|e| format!("parse: {e}"))?;
    let (tx, mut rx) = tokio::sync::mpsc::channel::<Event>(10000);
    let mut engine = varpulis_runtime::engine::Engine::new(tx);
    engine.load(&program).map_err(|e| format!("load: {e}"))?;
    let mut out = vec![json!({"ev": "reset", "engine": true})];
    for (i, h) in hist.iter().enumerate() {
        let s = h["s"].as_str().unwrap();
        let t = t0() + Duration::seconds(h["t"].as_i64().unwrap());
        let mut dropped = false;
        if h["op"] == "obs" {
            let ev = Event::new(s).with_field("id", i as i64).with_timestamp(t);
            match catch(|| rt.block_on(engine.process(ev))) { Ok(Ok(())) => {} Ok(Err(e)) => return Err(format!("process: {e}")), Err(p) => return Err(format!("panic: {p}")) }
            let mut n = 0;
            while rx.try_recv().is_ok() { n += 1; }
            dropped = n == 0;
        } else {
            match catch(|| rt.block_on(engine.advance_external_watermark(s, t.timestamp_millis()))) { Ok(Ok(())) => {} Ok(Err(e)) => return Err(format!("advance: {e}")), Err(p) => return Err(format!("panic: {p}")) }
            while rx.try_recv().is_ok() {}
        }
        let cp = engine.create_checkpoint();
        let ws = cp.watermark_state;
        let mut wm = serde_json::Map::new();
        for (src, _) in SRCS { wm.insert(src.into(), json!(rel(ws.as_ref().and_then(|w| w.sources.get(src)).and_then(|x| x.watermark_ms)))); }
        out.push(json!({"ev": "op", "op": h["op"], "s": s, "t": h["t"], "wm": wm, "eff": rel(ws.as_ref().and_then(|w| w.effective_watermark_ms)), "dropped": dropped}));
    }
    Ok(out)
}

/// args: cases.ndjson report.json trace.ndjson
pub fn replay(args: &[String]) {
    let cases = read_cases(&args[0]);
    let mut rep = Report::new();
    let rt = tokio::runtime::Builder::new_current_thread().enable_all().build().unwrap();
    let mut traces = vec![];
    for c in &cases {
        let hist = c["hist"].as_array().unwrap();
        let advs = hist.iter().filter(|h| h["op"] == "adv").count();
        rep.case(&json!({"hist": hist.iter().map(|h| json!([h["op"], h["s"], h["t"]])).collect::<Vec<_>>()}), advs > 0 && advs < hist.len());
        traces.extend(tracker_block(hist));
        match engine_block(&rt, hist) {
            Ok(b) => { if b.iter().any(|r| r["dropped"] == true) { rep.count("engine_blocks_with_drops", 1); } traces.extend(b); }
            Err(e) => rep.violation(&["C24"], &format!("engine failed on a watermark program: {e}"), &json!({"hist": hist}), J::Null, J::Null),
        }
    }
    write_ndjson(&args[2], &traces);
    rep.write(&args[1]);
}

/// args: report.json trace.ndjson nblocks len
pub fn record(args: &[String]) {
    let nblocks: usize = args[2].parse().unwrap();
    let len: usize = args[3].parse().unwrap();
    let mut rng = Rng::new(seed_from_env() ^ 0x3a7e);
    let mut rep = Report::new();
    let rt = tokio::runtime::Builder::new_current_thread().enable_all().build().unwrap();
    let mut traces = vec![];
    for _ in 0..nblocks {
        let mut base = 0i64;
        let hist: Vec<J> = (0..len).map(|_| {
            base += rng.below(3) as i64;
            let t = (base + rng.below(7) as i64 - 3).max(0);
            json!({"op": if rng.chance(1, 4) { "adv" } else { "obs" }, "s": SRCS[rng.below(3) as usize].0, "t": t})
        }).collect();
        rep.case(&json!({"len": len, "first": hist[0]}), true);
        traces.extend(tracker_block(&hist));
        if let Ok(b) = engine_block(&rt, &hist) { traces.extend(b); }
    }
    write_ndjson(&args[1], &traces);
    rep.write(&args[0]);
}
