//! C25: spec/trend/Trend.tla — brute-force reference count, and a faithful transcription of the Hamlet aggregator's arithmetic.
//! Each case = type sequence with reference / faithful running / faithful flushed values per query.
use crate::util::*;
use serde_json::{json, Value as J};
use std::sync::Arc;
use varpulis_runtime::event::Event;
use varpulis_runtime::greta::GretaAggregate;
use varpulis_runtime::hamlet::template::TemplateBuilder;
use varpulis_runtime::hamlet::{HamletAggregator, HamletConfig, QueryRegistration};

type Q = (Vec<String>, usize);

fn mk(queries: &[Q]) -> HamletAggregator {
    let mut b = TemplateBuilder::new();
    let mut base = 0u16;
    let mut bases = vec![];
    for (i, (types, _)) in queries.iter().enumerate() {
        let t: Vec<&str> = types.iter().map(|s| s.as_str()).collect();
        b.add_sequence(i as u32, &t);
        bases.push(base);
        base += types.len() as u16 + 1;
    }
    for (i, (types, k)) in queries.iter().enumerate() {
        b.add_kleene(i as u32, &types[*k], bases[i] + *k as u16);
    }
    let t = b.build();
    let regs: Vec<QueryRegistration> = queries.iter().enumerate().map(|(i, (types, k))| {
        let idx: smallvec::SmallVec<[u16; 4]> = types.iter().map(|n| t.type_index(n).unwrap()).collect();
        let kt = t.type_index(&types[*k]).unwrap();
        QueryRegistration { id: i as u32, event_types: idx, kleene_types: smallvec::smallvec![kt], aggregate: GretaAggregate::CountTrends }
    }).collect();
    let mut ag = HamletAggregator::new(HamletConfig { incremental: true, ..Default::default() }, t);
    for r in regs { ag.register_query(r); }
    ag
}

/// one window on an existing aggregator: (running values, flushed values)
fn window(ag: &mut HamletAggregator, nq: usize, stream: &[String]) -> (Vec<u64>, Vec<u64>) {
    let mut running = vec![0u64; nq];
    for c in stream {
        for r in ag.process(Arc::new(Event::new(c.as_str()))) { running[r.query_id as usize] = r.value; }
    }
    let res = ag.flush();
    let fl = (0..nq).map(|i| res.iter().find(|r| r.query_id == i as u32).map(|r| r.value).unwrap_or(0)).collect();
    (running, fl)
}

fn arr(v: &J) -> Vec<u64> { v.as_array().unwrap().iter().map(|x| x.as_u64().unwrap()).collect() }

/// args: "A,B:2;C,B:2" cases.ndjson report.json  [alone_cases_q1.ndjson alone_cases_q2.ndjson ...]
pub fn replay(args: &[String]) {
    let queries: Vec<Q> = args[0].split(';').map(|q| { let (t, k) = q.split_once(':').unwrap(); (t.split(',').map(|s| s.to_string()).collect(), k.parse::<usize>().unwrap() - 1) }).collect();
    let nq = queries.len();
    let cases = read_cases(&args[1]);
    // faithful values of each query run alone, keyed by stream
    let mut alone: Vec<std::collections::HashMap<String, (u64, u64)>> = vec![];
    for a in args.iter().skip(3) {
        let mut m = std::collections::HashMap::new();
        for c in read_cases(a) { m.insert(c["str"].to_string(), (arr(&c["flush"])[0], arr(&c["ref"])[0])); }
        alone.push(m);
    }
    let mut rep = Report::new();
    let mut prev: Option<Vec<String>> = None;
    for c in &cases {
        let stream: Vec<String> = c["str"].as_array().unwrap().iter().map(|x| x.as_str().unwrap().to_string()).collect();
        let small = json!({"queries": args[0], "stream": stream.join("")});
        let reference = arr(&c["ref"]);
        rep.case(&small, reference.iter().any(|x| *x > 0));
        let r = catch(|| {
            // window 1 of a fresh aggregator; then a second window (the previous case's stream) on the SAME aggregator
            let mut ag = mk(&queries);
            let w1 = window(&mut ag, nq, &stream);
            let w2 = prev.as_ref().map(|p| (p.clone(), window(&mut ag, nq, p)));
            let mut fresh = mk(&queries);
            let w2_fresh = prev.as_ref().map(|p| window(&mut fresh, nq, p));
            (w1, w2, w2_fresh)
        });
        let ((running, fl), w2, w2_fresh) = match r { Ok(x) => x, Err(p) => { rep.violation(&["C25"], &format!("aggregator panicked: {p}"), &small, J::Null, J::Null); continue; } };
        let (m_run, m_fl) = (arr(&c["run"]), arr(&c["flush"]));
        let conform = running == m_run && fl == m_fl;
        if !conform { rep.count("model_mismatch", 1); }
        // first sentence: reported count = number of trends
        if fl != reference {
            if conform { rep.known(&["C25"], "C25-hamlet-counting-scheme", "reported trend count differs from the number of matching trends"); }
            else { rep.violation(&["C25"], "reported trend count differs from the reference in a way the faithful transcription does not predict", &small, json!({"reference": reference, "faithful": m_fl}), json!(fl)); }
        }
        // second sentence: the same value alone and alongside other queries
        if nq > 1 && alone.len() == nq {
            for q in 0..nq {
                if let Some((a_fl, _)) = alone[q].get(&c["str"].to_string()) {
                    let mut solo = mk(&queries[q..q + 1]);
                    let real_alone = window(&mut solo, 1, &stream).1[0];
                    if real_alone != fl[q] {
                        if conform && real_alone == *a_fl { rep.known(&["C25"], "C25-sharing-changes-counts", "a query reports another value when registered together with other queries"); }
                        else { rep.violation(&["C25"], "alone-vs-shared difference beyond what the faithful transcription predicts", &small, json!({"alone_real": real_alone, "alone_faithful": a_fl, "shared_faithful": m_fl[q]}), json!(fl[q])); }
                    }
                }
            }
        }
        // windows are independent: a second window on the same aggregator = the same stream on a fresh aggregator
        if let (Some((p, w2)), Some(w2f)) = (w2, w2_fresh) {
            rep.count("second_windows", 1);
            if w2 != w2f {
                rep.violation(&["C25"], "second window on a reused aggregator reports other counts than the same stream on a fresh aggregator", &json!({"queries": args[0], "window1": stream.join(""), "window2": p.join("")}), json!({"fresh": w2f}), json!({"reused": w2}));
            }
        }
        prev = Some(stream);
    }
    rep.write(&args[2]);
}
