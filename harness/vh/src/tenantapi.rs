//! C28: spec/api/TenantApi.tla request sequences against the real REST routes (warp::test on varpulis_cli::api::api_routes).
use crate::util::*;
use serde_json::{json, Value as J};
use varpulis_runtime::tenant::{shared_tenant_manager, SharedTenantManager, TenantId, TenantQuota};

const KEYS: [&str; 3] = ["key-alpha-1", "KEY-ALPHA-1", "key-beta-2"];   // the first two differ only in case
fn src(t: usize, version: u64) -> String { format!("stream S{t} = A\n    .emit(t: {t}, ver: {version}, x: x)\n") }

struct World { mgr: SharedTenantManager, ids: Vec<TenantId>, pids: Vec<String> }

async fn setup() -> Result<World, String> {
    let mgr = shared_tenant_manager();
    let mut ids = vec![];
    let mut pids = vec![];
    {
        let mut m = mgr.write().await;
        for (i, k) in KEYS.iter().enumerate() {
            // if the server refuses a key that differs from an existing one only in case (a legitimate policy), fall back to an unrelated key
            let id = match m.create_tenant(format!("t{}", i + 1), k.to_string(), TenantQuota::enterprise()) {
                Ok(id) => id,
                Err(_) => m.create_tenant(format!("t{}", i + 1), format!("key-gamma-{i}"), TenantQuota::enterprise()).map_err(|e| format!("create tenant: {e}"))?,
            };
            ids.push(id);
        }
        for (i, id) in ids.clone().iter().enumerate() {
            let pid = m.deploy_pipeline_on_tenant(id, format!("p{}", i + 1), src(i + 1, 0)).await.map_err(|e| format!("deploy: {e}"))?;
            pids.push(pid);
        }
    }
    Ok(World { mgr, ids, pids })
}

async fn snapshot(w: &World) -> J {
    let m = w.mgr.read().await;
    let mut out = vec![];
    for (i, id) in w.ids.iter().enumerate() {
        let t = m.get_tenant(id);
        let p = t.and_then(|t| t.pipelines.get(&w.pids[i]));
        let ver = p.map(|p| if let Some(pos) = p.source.find("ver: ") { p.source[pos + 5..].split(',').next().unwrap().trim().parse::<u64>().unwrap_or(99) } else { 99 });
        out.push(json!({"exists": p.is_some(), "injected": t.map(|t| t.usage.events_processed).unwrap_or(0), "version": ver.unwrap_or(0), "npipelines": t.map(|t| t.pipelines.len()).unwrap_or(0)}));
    }
    json!(out)
}

async fn run_case(c: &J) -> Result<(Vec<String>, J), String> {
    let w = setup().await?;
    let routes = varpulis_cli::api::api_routes(w.mgr.clone(), None);
    let mut outcomes = vec![];
    for r in c["reqs"].as_array().unwrap() {
        let e = r["e"].as_str().unwrap();
        let cred = r["c"].as_str().unwrap();
        let tg = r["tg"].as_u64().unwrap();
        let pid = if tg == 9 { "00000000-0000-0000-0000-000000000000".to_string() } else { w.pids[(tg - 1) as usize].clone() };
        let keys: Vec<String> = { let m = w.mgr.read().await; w.ids.iter().map(|id| m.get_tenant(id).map(|t| t.api_key.clone()).unwrap_or_default()).collect() };
        let key = match cred { "k1" => Some(keys[0].as_str()), "k2" => Some(keys[1].as_str()), "k3" => Some(keys[2].as_str()), "wrong" => Some("KEY-ALPHA-1x"), _ => None };
        let (method, path, body): (&str, String, Option<J>) = match e {
            "list" => ("GET", "/api/v1/pipelines".into(), None),
            "usage" => ("GET", "/api/v1/usage".into(), None),
            "get" => ("GET", format!("/api/v1/pipelines/{pid}"), None),
            "delete" => ("DELETE", format!("/api/v1/pipelines/{pid}"), None),
            "metrics" => ("GET", format!("/api/v1/pipelines/{pid}/metrics"), None),
            "inject" => ("POST", format!("/api/v1/pipelines/{pid}/events"), Some(json!({"event_type": "A", "fields": {"x": 1}}))),
            "inject_batch" => ("POST", format!("/api/v1/pipelines/{pid}/events-batch"), Some(json!({"events": [{"event_type": "A", "fields": {"x": 1}}, {"event_type": "A", "fields": {"x": 2}}]}))),
            "checkpoint" => ("POST", format!("/api/v1/pipelines/{pid}/checkpoint"), None),
            "reload" => {
                // the new source carries the next version of the REQUESTER's own pipeline template
                let t = match cred { "k1" => 1, "k2" => 2, "k3" => 3, _ => 1 };
                let cur = snapshot(&w).await[t - 1]["version"].as_u64().unwrap_or(0);
                ("POST", format!("/api/v1/pipelines/{pid}/reload"), Some(json!({"source": src(t, cur + 1)})))
            }
            "restore" => {
                // a checkpoint taken (harness-side) from a fresh engine of the same shape
                let (tx, _rx) = tokio::sync::mpsc::channel(8);
                let mut eng = varpulis_runtime::engine::Engine::new(tx);
                eng.load(&varpulis_parser::parse(&src(1, 0)).unwrap()).unwrap();
                ("POST", format!("/api/v1/pipelines/{pid}/restore"), Some(json!({"checkpoint": eng.create_checkpoint()})))
            }
            x => return Err(format!("endpoint {x}")),
        };
        let mut req = warp::test::request().method(method).path(&path);
        if let Some(k) = key { req = req.header("x-api-key", k); }
        if let Some(b) = &body { req = req.json(b); }
        let resp = req.reply(&routes).await;
        let s = resp.status().as_u16();
        let out = match s { 200..=299 => "ok", 404 => "notfound", 400 if key.is_none() => "unauthorised", 401 | 403 => "unauthorised", _ => "other" };
        let mut o = out.to_string();
        if out == "other" { o = format!("other:{s}:{}", String::from_utf8_lossy(resp.body()).chars().take(120).collect::<String>()); }
        // a list must only show the requester's own pipeline
        if e == "list" && out == "ok" {
            let body = String::from_utf8_lossy(resp.body()).to_string();
            let t = match cred { "k1" => 0, "k2" => 1, _ => 2 };
            for (i, p) in w.pids.iter().enumerate() { if i != t && body.contains(p.as_str()) { o = format!("leak: list with {cred} shows pipeline of tenant {}", i + 1); } }
        }
        outcomes.push(o);
    }
    let fin = snapshot(&w).await;
    Ok((outcomes, fin))
}

/// args: cases.ndjson report.json
pub fn replay(args: &[String]) {
    let cases = read_cases(&args[0]);
    let mut rep = Report::new();
    let rt = tokio::runtime::Builder::new_current_thread().enable_all().build().unwrap();
    for c in &cases {
        let small = json!({"reqs": c["reqs"].as_array().unwrap().iter().map(|r| json!([r["e"], r["c"], r["tg"]])).collect::<Vec<_>>()});
        let foreign = c["reqs"].as_array().unwrap().iter().any(|r| { let t = match r["c"].as_str().unwrap() { "k1" => 1, "k2" => 2, "k3" => 3, _ => 0 }; t != 0 && r["tg"].as_u64().unwrap() != 9 && r["tg"].as_u64().unwrap() != t });
        rep.case(&small, foreign);
        match catch(|| rt.block_on(run_case(c))) {
            Err(p) => rep.violation(&["C28"], &format!("API panicked: {p}"), &small, J::Null, J::Null),
            Ok(Err(e)) => { rep.count("setup_failed", 1); let _ = e; }
            Ok(Ok((outs, fin))) => {
                let want: Vec<String> = c["outcomes"].as_array().unwrap().iter().map(|x| x.as_str().unwrap().to_string()).collect();
                // The property does not fix status codes: a batch injection into a pipeline the requester does not own may
                // answer 200 with nothing accepted; what matters there is the state comparison below.  Reads, deletes, reloads,
                // restores and single injections addressed to a foreign pipeline must not be served.
                let reqs = c["reqs"].as_array().unwrap();
                let class_ok = outs.iter().zip(want.iter()).zip(reqs.iter()).all(|((g, w), r)| g == w || (w == "notfound" && g == "ok" && r["e"] == "inject_batch"));
                if !class_ok { rep.violation(&["C28"], "response classes differ from the isolation reference (served / not-found / unauthorised)", &small, json!(want), json!(outs)); }
                // a failed injection may be charged to the REQUESTER's own usage counter (the property only protects the other tenants)
                let mut extra = [0u64; 3];
                for (r, w) in reqs.iter().zip(want.iter()) {
                    let t = match r["c"].as_str().unwrap() { "k1" => 1, "k2" => 2, "k3" => 3, _ => 0 };
                    if t != 0 && w == "notfound" { extra[t - 1] += match r["e"].as_str().unwrap() { "inject" => 1, "inject_batch" => 2, _ => 0 }; }
                }
                // final state of every tenant = the reference's
                let m = &c["final"];
                for t in 0..3 {
                    let mt = &m[t];
                    let rt_ = &fin[t];
                    let (mi, ri) = (mt["injected"].as_u64().unwrap(), rt_["injected"].as_u64().unwrap());
                    let same = mt["exists"] == rt_["exists"] && ri >= mi && ri <= mi + extra[t] && (mt["exists"] == false || mt["version"] == rt_["version"]) && rt_["npipelines"].as_u64().unwrap() == if mt["exists"] == true { 1 } else { 0 };
                    if !same { rep.violation(&["C28"], &format!("state of tenant {} after the requests differs from the isolation reference", t + 1), &small, mt.clone(), rt_.clone()); }
                }
            }
        }
    }
    rep.write(&args[1]);
}
