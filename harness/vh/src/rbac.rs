//! C29: spec/api/Rbac.tla matrix (configuration x credential x endpoint) against the real cluster routes via warp::test.
use crate::util::*;
use serde_json::{json, Value as J};
use std::collections::HashMap;
use std::sync::Arc;
use varpulis_cluster::api::{cluster_routes, handle_rejection, shared_coordinator};
use varpulis_cluster::rbac::{ApiKeyEntry, RbacConfig, Role};
use varpulis_cluster::worker::{WorkerId, WorkerNode};
use warp::Filter;

const KV: &str = "viw-4b1d8e07";
const KO: &str = "opr-93ac5f21";
const KA: &str = "adm-7f3c9e2b";

fn transposed(k: &str) -> String { let mut b: Vec<char> = k.chars().collect(); b.swap(0, 1); b.into_iter().collect() }
fn flipped(k: &str) -> String { let mut b = k.as_bytes().to_vec(); b[0] ^= 2; b[4] ^= 2; String::from_utf8(b).unwrap() }

fn cred_key(c: &str) -> Option<String> {
    match c {
        "none" => None, "wrong" => Some("totally-wrong-key".into()),
        "near_viewer" => Some(transposed(KV)), "near_operator" => Some(transposed(KO)), "near_admin" => Some(transposed(KA)), "flip_admin" => Some(flipped(KA)),
        "viewer" => Some(KV.into()), "operator" => Some(KO.into()), "admin" => Some(KA.into()),
        x => panic!("cred {x}"),
    }
}
fn config(cfg: &str) -> RbacConfig {
    match cfg {
        "disabled" => RbacConfig::disabled(),
        "single_admin" => RbacConfig::single_key(KA.into()),
        _ => { let mut m = HashMap::new();
               m.insert(KV.to_string(), ApiKeyEntry { role: Role::Viewer, name: None });
               m.insert(KO.to_string(), ApiKeyEntry { role: Role::Operator, name: None });
               m.insert(KA.to_string(), ApiKeyEntry { role: Role::Admin, name: None });
               RbacConfig::multi_key(m) }
    }
}
fn request(ep: &str) -> (&'static str, String, Option<J>) {
    let b = "/api/v1/cluster";
    match ep {
        "workers_list" => ("GET", format!("{b}/workers"), None),
        "worker_get" => ("GET", format!("{b}/workers/w1"), None),
        "worker_register" => ("POST", format!("{b}/workers/register"), Some(json!({"worker_id": "w9", "address": "http://127.0.0.1:1", "api_key": "k", "capacity": {"cpu_cores": 1, "pipelines_running": 0, "max_pipelines": 10}}))),
        "worker_heartbeat" => ("POST", format!("{b}/workers/w1/heartbeat"), Some(json!({"events_processed": 7, "pipelines_running": 3}))),
        "worker_delete" => ("DELETE", format!("{b}/workers/w1"), None),
        "worker_drain" => ("POST", format!("{b}/workers/w1/drain"), Some(json!({}))),
        "groups_list" => ("GET", format!("{b}/pipeline-groups"), None),
        "group_get" => ("GET", format!("{b}/pipeline-groups/nope"), None),
        "group_deploy" => ("POST", format!("{b}/pipeline-groups"), Some(json!({"name": "g", "pipelines": [], "routes": []}))),
        "group_delete" => ("DELETE", format!("{b}/pipeline-groups/nope"), None),
        "group_inject" => ("POST", format!("{b}/pipeline-groups/nope/inject"), Some(json!({"event_type": "A", "fields": {}}))),
        "group_inject_batch" => ("POST", format!("{b}/pipeline-groups/nope/inject-batch"), Some(json!({"events_text": "A { x: 1 }"}))),
        "topology" => ("GET", format!("{b}/topology"), None),
        "validate" => ("POST", format!("{b}/validate"), Some(json!({"source": "stream S = A"}))),
        "rebalance" => ("POST", format!("{b}/rebalance"), Some(json!({}))),
        "migrations_list" => ("GET", format!("{b}/migrations"), None),
        "pipeline_migrate" => ("POST", format!("{b}/pipelines/nope/p1/migrate"), Some(json!({"target_worker_id": "w1"}))),
        "connectors_list" => ("GET", format!("{b}/connectors"), None),
        "connector_create" => ("POST", format!("{b}/connectors"), Some(json!({"name": "c9", "connector_type": "mqtt", "params": {"host": "h"}}))),
        "connector_update" => ("PUT", format!("{b}/connectors/c1"), Some(json!({"name": "c1", "connector_type": "mqtt", "params": {"host": "h2"}}))),
        "connector_delete" => ("DELETE", format!("{b}/connectors/c1"), None),
        "metrics" => ("GET", format!("{b}/metrics"), None),
        "scaling" => ("GET", format!("{b}/scaling"), None),
        "summary" => ("GET", format!("{b}/summary"), None),
        "models_list" => ("GET", format!("{b}/models"), None),
        "model_delete" => ("DELETE", format!("{b}/models/m1"), None),
        x => panic!("endpoint {x}"),
    }
}

async fn digest(c: &varpulis_cluster::api::SharedCoordinator) -> String {
    let c = c.read().await;
    let mut w: Vec<String> = c.workers.iter().map(|(id, n)| format!("{}:{:?}:{}:{}", id.0, n.status, n.capacity.pipelines_running, n.events_processed)).collect();
    w.sort();
    let mut g: Vec<&String> = c.pipeline_groups.keys().collect();
    g.sort();
    let mut k: Vec<String> = c.list_connectors().iter().map(|x| format!("{}:{:?}", x.name, x.params)).collect();
    k.sort();
    format!("{w:?}|{g:?}|{k:?}|{}", c.active_migrations.len())
}

async fn cell(c: &J) -> (u16, bool) {
    let coord = shared_coordinator();
    {
        let mut co = coord.write().await;
        co.register_worker(WorkerNode::new(WorkerId("w1".into()), "http://127.0.0.1:1".into(), "k".into()));
        let mut params = indexmap::IndexMap::new();
        params.insert("host".to_string(), "h".to_string());
        let _ = co.create_connector(serde_json::from_value(json!({"name": "c1", "connector_type": "mqtt", "params": {"host": "h"}})).unwrap());
        let _ = params;
    }
    let routes = cluster_routes(coord.clone(), Arc::new(config(c["cfg"].as_str().unwrap())), None).recover(handle_rejection);
    let before = digest(&coord).await;
    let (m, path, body) = request(c["ep"].as_str().unwrap());
    let mut req = warp::test::request().method(m).path(&path);
    if let Some(k) = cred_key(c["cred"].as_str().unwrap()) { req = req.header("x-api-key", k); }
    if let Some(b) = &body { req = req.json(b); }
    let resp = req.reply(&routes).await;
    let after = digest(&coord).await;
    (resp.status().as_u16(), before == after)
}

/// args: cases.ndjson report.json
pub fn replay(args: &[String]) {
    let cases = read_cases(&args[0]);
    let mut rep = Report::new();
    let rt = tokio::runtime::Builder::new_current_thread().enable_all().build().unwrap();
    for c in &cases {
        let small = json!({"cfg": c["cfg"], "cred": c["cred"], "endpoint": c["ep"]});
        let want = c["served"].as_bool().unwrap();
        rep.case(&small, !want);
        match catch(|| rt.block_on(cell(c))) {
            Err(p) => rep.violation(&["C29"], &format!("API panicked: {p}"), &small, J::Null, J::Null),
            Ok((status, unchanged)) => {
                let served = status != 401 && status != 403;
                if served != want { rep.violation(&["C29"], if served { "request served although the credential does not grant the required role" } else { "request rejected although the credential grants the required role" }, &small, json!({"served": want, "required": c["req"]}), json!({"status": status})); }
                if !served && !unchanged { rep.violation(&["C29"], "a rejected request changed coordinator state", &small, J::Null, json!({"status": status})); }
            }
        }
    }
    // blind guesses: none of 2048 arbitrary wrong keys may be served on a mutating endpoint
    let mut accepted = vec![];
    for i in 0..2048u32 {
        let c = json!({"cfg": if i % 2 == 0 { "single_admin" } else { "multi" }, "ep": "worker_register"});
        let key = format!("guess-{i:05}");
        let r = catch(|| rt.block_on(async {
            let coord = shared_coordinator();
            let routes = cluster_routes(coord.clone(), Arc::new(config(c["cfg"].as_str().unwrap())), None).recover(handle_rejection);
            let (m, path, body) = request("worker_register");
            warp::test::request().method(m).path(&path).header("x-api-key", &key).json(&body.unwrap()).reply(&routes).await.status().as_u16()
        }));
        rep.count("blind_guesses", 1);
        if let Ok(s) = r { if s != 401 && s != 403 { accepted.push(key); } }
    }
    if !accepted.is_empty() { rep.violation(&["C29"], "arbitrary wrong keys are served on POST workers/register", &json!({"guesses": 2048}), json!(0), json!({"served": accepted.len(), "first": accepted[0]})); }
    rep.write(&args[1]);
}
