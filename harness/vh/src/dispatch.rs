//! Binding of spec/engine/Dispatch.tla to Engine::process / process_batch / process_batch_sync.
use crate::util::*;
use serde_json::{json, Value as J};
use std::collections::BTreeMap;
use tokio::sync::mpsc;
use varpulis_core::Value;
use varpulis_runtime::engine::Engine;
use varpulis_runtime::event::Event;

pub fn render(prog: &J) -> String {
    render_part(prog.as_array().unwrap(), true)
}

pub fn render_part(streams: &[J], with_fn: bool) -> String {
    let mut s = String::new();
    if with_fn && streams.iter().any(|st| st["proc"].as_bool().unwrap()) {
        s.push_str("fn expand():\n    emit Lo(x: x)\n    emit Hi(x: x + 10)\n\n");
    }
    if streams.iter().any(|st| st["name"] == "N") {
        s.push_str("fn pos(v: int) -> bool:\n    return v > 0\n\n");
    }
    for st in streams {
        let name = st["name"].as_str().unwrap();
        if name == "N" {
            // the filter sits on the merge branches and calls a user-defined function
            s.push_str("stream N = merge(\n        stream NA = A .where(pos(x)),\n        stream NB = B .where(pos(x))\n    )\n    .emit(x: x)\n\n");
            continue;
        }
        let mut srcs: Vec<&str> = st["srcs"].as_array().unwrap().iter().map(|x| x.as_str().unwrap()).collect();
        srcs.sort_by_key(|x| if *x == "A" || *x == "B" { 1 } else { 0 });
        let src = if srcs.len() == 1 { srcs[0].to_string() } else { format!("merge({})", srcs.join(", ")) };
        s.push_str(&format!("stream {name} = {src}\n"));
        if st["where"].as_bool().unwrap() { s.push_str("    .where(x > 0)\n"); }
        let w = st["win"].as_u64().unwrap();
        if w > 0 { s.push_str(&format!("    .window({w})\n    .aggregate(x: last(x))\n")); }
        if st["proc"].as_bool().unwrap() { s.push_str("    .process(expand())\n"); }
        if st["emit"].as_bool().unwrap() { s.push_str("    .emit(x: x)\n"); }
        s.push('\n');
    }
    s
}

fn xval(e: &Event) -> i64 {
    match e.data.get("x") { Some(Value::Int(n)) => *n, Some(Value::Float(f)) => *f as i64, _ => -99 }
}

type Out = Vec<(String, i64)>;
type Handed = Vec<(String, String, i64)>;

/// path: 0 per-event, 1 async batches, 2 sync batches
fn run(rt: &tokio::runtime::Runtime, vpl: &str, vpl2: Option<&str>, batches1: &[Vec<Event>], batches: &[Vec<Event>], path: u8) -> Result<(Out, Handed), String> {
    let (tx, mut rx) = mpsc::channel::<Event>(100000);
    let mut e = Engine::new(tx);
    let program = varpulis_parser::parse(vpl).map_err(|x| format!("parse: {x}"))?;
    e.load(&program).map_err(|x| format!("load: {x}"))?;
    let _ = varpulis_runtime::engine::verif_hook::take();
    let r = catch(|| -> Result<(), String> {
        if let Some(v2) = vpl2 {
            for b in batches1 {
                match path {
                    0 => { for ev in b { rt.block_on(e.process(ev.clone()))?; } }
                    1 => rt.block_on(e.process_batch(b.clone()))?,
                    _ => e.process_batch_sync(b.clone())?,
                }
            }
            // the rest of the program is loaded additively into the running engine
            let p2 = varpulis_parser::parse(v2).map_err(|x| format!("parse part 2: {x}"))?;
            e.load(&p2).map_err(|x| format!("load part 2: {x}"))?;
        }
        for b in batches {
            match path {
                0 => { for ev in b { rt.block_on(e.process(ev.clone()))?; } }
                1 => rt.block_on(e.process_batch(b.clone()))?,
                _ => e.process_batch_sync(b.clone())?,
            }
        }
        Ok(())
    });
    match r { Ok(Ok(())) => {} Ok(Err(x)) => return Err(format!("process: {x}")), Err(p) => return Err(format!("panic: {p}")) }
    let mut out = vec![];
    while let Ok(o) = rx.try_recv() { out.push((o.event_type.to_string(), xval(&o))); }
    let handed = varpulis_runtime::engine::verif_hook::take().into_iter().map(|(s, ev)| (s, ev.event_type.to_string(), xval(&ev))).collect();
    Ok((out, handed))
}

fn model_out(j: &J) -> Out { j.as_array().unwrap().iter().map(|o| (o["type"].as_str().unwrap().to_string(), o["x"].as_i64().unwrap())).collect() }
fn model_handed(j: &J) -> Handed { j.as_array().unwrap().iter().map(|o| (o[0].as_str().unwrap().to_string(), o[1].as_str().unwrap().to_string(), o[2].as_i64().unwrap())).collect() }
fn bag<T: Ord + Clone>(v: &[T]) -> BTreeMap<T, usize> { let mut m = BTreeMap::new(); for x in v { *m.entry(x.clone()).or_insert(0) += 1; } m }
fn per_stream(o: &Out) -> BTreeMap<String, Vec<i64>> { let mut m: BTreeMap<String, Vec<i64>> = BTreeMap::new(); for (t, x) in o { m.entry(t.clone()).or_default().push(*x); } m }

/// args: cases.ndjson report.json
pub fn replay(args: &[String]) {
    let cases = read_cases(&args[0]);
    let mut rep = Report::new();
    let rt = tokio::runtime::Builder::new_current_thread().enable_all().build().unwrap();
    for c in &cases {
        let streams = c["prog"].as_array().unwrap();
        let k = c["k"].as_u64().unwrap() as usize;
        let two = k < streams.len();
        let uses_fn = |part: &[J]| part.iter().any(|st| st["proc"].as_bool().unwrap());
        let vpl = if two { render_part(&streams[..k], true) } else { render(&c["prog"]) };
        let vpl2 = if two { Some(render_part(&streams[k..], !uses_fn(&streams[..k]))) } else { None };
        let mk = |e: &J| Event::new(e["type"].as_str().unwrap()).with_field("x", e["x"].as_i64().unwrap());
        let all: Vec<Event> = c["es"].as_array().unwrap().iter().map(mk).collect();
        let split: Vec<Vec<Event>> = c["split"].as_array().unwrap().iter().map(|b| b.as_array().unwrap().iter().map(mk).collect()).collect();
        let split1: Vec<Vec<Event>> = c["split1"].as_array().map(|a| a.iter().map(|b| b.as_array().unwrap().iter().map(mk).collect()).collect()).unwrap_or_default();
        let j = c["j"].as_u64().unwrap() as usize;
        let small = json!({"vpl": vpl, "then_load": vpl2, "after_events": j, "es": c["es"], "split1": c["split1"], "split": c["split"]});
        let mut real: Vec<(Out, Handed)> = vec![];
        let mut failed = false;
        for path in 0..3u8 {
            let (b1, b2): (Vec<Vec<Event>>, Vec<Vec<Event>>) = if path == 0 {
                if two { (vec![all[..j].to_vec()], vec![all[j..].to_vec()]) } else { (vec![], vec![all.clone()]) }
            } else { (split1.clone(), split.clone()) };
            match run(&rt, &vpl, vpl2.as_deref(), &b1, &b2, path) {
                Ok(r) => real.push(r),
                Err(e) => { rep.violation(&["C16", "C17"], &format!("engine failed on path {path}: {e}"), &small, J::Null, J::Null); failed = true; break; }
            }
        }
        if failed { rep.case(&small, true); continue; }
        rep.case(&small, !real[0].0.is_empty());
        let model: Vec<(Out, Handed)> = vec![(model_out(&c["per"]), model_handed(&c["hper"])), (model_out(&c["async"]), model_handed(&c["hasync"])), (model_out(&c["sync"]), model_handed(&c["hsync"]))];
        let names = ["per-event", "async batch", "sync batch"];
        let conform: Vec<bool> = (0..3).map(|i| real[i].0 == model[i].0 && bag(&real[i].1) == bag(&model[i].1)).collect();
        for i in 0..3 { if !conform[i] { rep.count(&format!("model_mismatch_{}", i), 1); } }
        // ---- C16: the output sequence is the same on all three paths ----
        for i in 1..3 {
            if real[i].0 == real[0].0 { continue; }
            let level = if bag(&real[i].0) != bag(&real[0].0) { "multiset" } else if per_stream(&real[i].0) != per_stream(&real[0].0) { "per-stream order" } else { "interleaving" };
            if conform[0] && conform[i] {
                let fid = match (i, level) {
                    (2, "multiset") => "C16-sync-path-reroutes-unrenamed-output",
                    (_, "interleaving") => "C16-batch-defers-derived-events-interleaving",
                    (_, _) => "C16-batch-defers-derived-events-order",
                };
                rep.known(&["C16"], fid, &format!("{} path differs from per-event processing ({level})", names[i]));
            } else {
                rep.violation(&["C16"], &format!("{} path output differs from per-event processing ({level}) beyond the recorded findings", names[i]), &small,
                              json!({"per_event": real[0].0}), json!({names[i]: real[i].0, "model": model[i].0}));
            }
        }
        // ---- C17: each (stream, event) pair handed exactly as often as the routing (per-event model) says ----
        let reference = bag(&model[0].1);
        for i in 0..3 {
            let got = bag(&real[i].1);
            if got == reference { continue; }
            if conform[i] && bag(&model[i].1) != reference {
                rep.known(&["C17"], "C17-sync-path-reprocesses-unrenamed-output", &format!("{} path hands events to streams more often than routed", names[i]));
            } else {
                rep.violation(&["C17"], &format!("{} path: (stream, event) pairs handed to pipelines differ from the routing", names[i]), &small,
                              json!(reference.iter().map(|(k, v)| json!([k.0, k.1, k.2, v])).collect::<Vec<_>>()),
                              json!(got.iter().map(|(k, v)| json!([k.0, k.1, k.2, v])).collect::<Vec<_>>()));
            }
        }
        if conform.iter().all(|x| *x) { rep.count("all_paths_conform", 1); } else if !rep.violations.is_empty() { } else { rep.drift(&["C16", "C17"], "engine output differs from the transcribed dispatch model but the paths agree with each other", &small); }
    }
    rep.write(&args[1]);
}
