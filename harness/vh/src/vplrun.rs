//! Debug helper: vh vpl-run <program.vpl> <events.ndjson>  — prints every output event as JSON.
use crate::util::*;
use serde_json::{json, Value as J};
use varpulis_core::Value;
use varpulis_runtime::event::Event;

pub fn j2v(v: &J) -> Value {
    match v {
        J::Null => Value::Null,
        J::Bool(b) => Value::Bool(*b),
        J::Number(n) => {
            if let Some(i) = n.as_i64() { Value::Int(i) } else { Value::Float(n.as_f64().unwrap()) }
        }
        J::String(s) => Value::Str(s.as_str().into()),
        _ => Value::Null,
    }
}

pub fn v2j(v: &Value) -> J {
    match v {
        Value::Null => J::Null,
        Value::Bool(b) => json!(b),
        Value::Int(i) => json!(i),
        Value::Float(f) => json!({"f": f}),
        Value::Str(s) => json!(s.to_string()),
        other => json!(format!("{other:?}")),
    }
}

pub fn mk_event(e: &J) -> Event {
    let mut ev = Event::new(e["type"].as_str().unwrap());
    if let Some(o) = e["fields"].as_object() {
        for (k, v) in o {
            ev = ev.with_field(k.as_str(), j2v(v));
        }
    }
    if let Some(t) = e["ts"].as_i64() {
        ev.timestamp = chrono::TimeZone::timestamp_millis_opt(&chrono::Utc, 3_000_000_000 + t).unwrap();
    }
    ev
}

pub fn out_json(o: &Event) -> J {
    let mut m = serde_json::Map::new();
    let mut keys: Vec<_> = o.data.keys().collect();
    keys.sort();
    for k in keys {
        m.insert(k.to_string(), v2j(&o.data[k]));
    }
    json!({"type": o.event_type.to_string(), "data": m})
}

pub fn main(args: &[String]) {
    let src = std::fs::read_to_string(&args[0]).unwrap();
    let evs = read_cases(&args[1]);
    let rt = tokio::runtime::Builder::new_current_thread().enable_all().build().unwrap();
    let program = varpulis_parser::parse(&src).unwrap_or_else(|e| panic!("parse: {e}"));
    let (tx, mut rx) = tokio::sync::mpsc::channel::<Event>(100000);
    let mut engine = varpulis_runtime::engine::Engine::new(tx);
    engine.load(&program).unwrap_or_else(|e| panic!("load: {e}"));
    for e in &evs {
        rt.block_on(engine.process(mk_event(e))).unwrap();
        while let Ok(o) = rx.try_recv() {
            println!("{} -> {}", e, out_json(&o));
        }
    }
}
