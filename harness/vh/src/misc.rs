//! Smaller function-shaped properties: C40 (ValueEq.tla), C42 (ForExpand.tla), C46 (EventFile.tla).
use crate::util::*;
use serde_json::{json, Value as J};
use std::hash::{Hash, Hasher};
use std::sync::Arc;
use varpulis_core::value::FxIndexMap;
use varpulis_core::Value;
use varpulis_runtime::event_file::{EventFileParser, StreamingEventReader};

// ------------------------------------------------------------------ C40
fn mapv(entries: Vec<(&str, Value)>) -> Value {
    let mut m: FxIndexMap<Arc<str>, Value> = FxIndexMap::default();
    for (k, v) in entries { m.insert(k.into(), v); }
    Value::map(m)
}
fn shape(s: &str) -> Value {
    let nan2 = f64::from_bits(0x7ff8_0000_0000_0001); // a NaN with another payload
    match s {
        "null" => Value::Null, "true" => Value::Bool(true), "false" => Value::Bool(false),
        "i0" => Value::Int(0), "i1" => Value::Int(1), "imin" => Value::Int(i64::MIN),
        "f0" => Value::Float(0.0), "fneg0" => Value::Float(-0.0), "f1" => Value::Float(1.0),
        "nan" => Value::Float(f64::NAN), "nan2" => Value::Float(nan2), "inf" => Value::Float(f64::INFINITY),
        "s_empty" => Value::Str("".into()), "s_a" => Value::Str("a".into()), "ts0" => Value::Timestamp(0), "dur0" => Value::Duration(0),
        "arr_empty" => Value::array(vec![]), "arr_i1" => Value::array(vec![Value::Int(1)]), "arr_f1" => Value::array(vec![Value::Float(1.0)]),
        "arr_nan" => Value::array(vec![Value::Float(f64::NAN)]), "arr_nan2" => Value::array(vec![Value::Float(nan2)]),
        "arr_f0" => Value::array(vec![Value::Float(0.0)]), "arr_fneg0" => Value::array(vec![Value::Float(-0.0)]),
        "arr_nested" => Value::array(vec![Value::array(vec![Value::Int(1)]), mapv(vec![("a", Value::Int(1))])]),
        "map_empty" => mapv(vec![]),
        "map_ab" => mapv(vec![("a", Value::Int(1)), ("b", Value::Int(2))]), "map_ba" => mapv(vec![("b", Value::Int(2)), ("a", Value::Int(1))]),
        "map_a" => mapv(vec![("a", Value::Int(1))]),
        "map_ab_nan" => mapv(vec![("a", Value::Float(f64::NAN)), ("b", Value::Int(2))]), "map_ba_nan2" => mapv(vec![("b", Value::Int(2)), ("a", Value::Float(nan2))]),
        "map_nested_ab" => mapv(vec![("m", mapv(vec![("a", Value::Int(1)), ("b", Value::Int(2))])), ("z", Value::Int(0))]),
        "map_nested_ba" => mapv(vec![("z", Value::Int(0)), ("m", mapv(vec![("b", Value::Int(2)), ("a", Value::Int(1))]))]),
        "map_zero" => mapv(vec![("a", Value::Float(0.0))]), "map_negzero" => mapv(vec![("a", Value::Float(-0.0))]),
        // maps whose key sets differ while the odd key holds Null (a lookup that reads a missing key as Null confuses them)
        "map_anull_b" => mapv(vec![("a", Value::Null), ("b", Value::Int(1))]), "map_cnull_b" => mapv(vec![("c", Value::Null), ("b", Value::Int(1))]),
        "map_b_c2" => mapv(vec![("b", Value::Int(1)), ("c", Value::Int(2))]),
        "map_anull" => mapv(vec![("a", Value::Null)]), "map_cnull" => mapv(vec![("c", Value::Null)]),
        "arr_map_anull" => Value::array(vec![mapv(vec![("a", Value::Null)])]), "arr_map_cnull" => Value::array(vec![mapv(vec![("c", Value::Null)])]),
        x => panic!("shape {x}"),
    }
}
fn h(v: &Value) -> u64 { let mut s = std::collections::hash_map::DefaultHasher::new(); v.hash(&mut s); s.finish() }

/// args: cases.ndjson report.json
pub fn value_eq(args: &[String]) {
    let cases = read_cases(&args[0]);
    let mut rep = Report::new();
    for c in &cases {
        let (an, bn, cn) = (c["a"].as_str().unwrap(), c["b"].as_str().unwrap(), c["c"].as_str().unwrap());
        let (a, b, cc) = (shape(an), shape(bn), shape(cn));
        let small = json!({"a": an, "b": bn, "c": cn});
        let r = catch(|| {
            let mut v: Vec<String> = vec![];
            let (ab, ba, bc, ac) = (a == b, b == a, b == cc, a == cc);
            if !(a == a) { v.push(format!("not reflexive: {an}")); }
            if ab != ba { v.push(format!("not symmetric: {an} == {bn} is {ab} but {bn} == {an} is {ba}")); }
            if ab && bc && !ac { v.push(format!("not transitive: {an} == {bn} == {cn} but {an} != {cn}")); }
            if ab && h(&a) != h(&b) { v.push(format!("equal values hash differently: {an} == {bn}")); }
            if c["ab"].as_bool().unwrap() && !ab { v.push(format!("values the documented semantics identify are unequal: {an} vs {bn}")); }
            (v, ab)
        });
        match r {
            Err(p) => { rep.case(&small, true); rep.violation(&["C40"], &format!("panic: {p}"), &small, J::Null, J::Null); }
            Ok((v, ab)) => { rep.case(&small, ab && an != bn); for w in v { rep.violation(&["C40"], &w, &small, J::Null, J::Null); } }
        }
    }
    rep.write(&args[1]);
}

// ------------------------------------------------------------------ C42
fn ph(uses: &J, v: &str, env: Option<&J>) -> String {
    let used = uses.as_array().map(|a| a.iter().any(|x| x == v)).unwrap_or(false);
    match env {
        None => if used { format!("{{{v}}}") } else { "9".into() },
        Some(vals) => if used { vals[v].as_i64().unwrap().to_string() } else { "9".into() },
    }
}
fn tmpl(t: &str, uses: &J, env: Option<&J>, ind: &str) -> String {
    let i = ph(uses, "i", env);
    let j = ph(uses, "j", env);
    match t {
        "ctx" => format!("{ind}context c{i}x{j}\n"),
        "stream" => format!("{ind}stream S{i}x{j} = E{i}\n{ind}    .where(x > {j})\n{ind}    .emit(v: x, w: {i})\n"),
        "multi" => format!("{ind}context m{i}x{j}\n{ind}stream M{i}x{j} = A\n{ind}    .emit(v: {i} + {j})\n"),
        _ => unreachable!(),
    }
}
fn render_items(items: &J, depth: usize, out: &mut String) { render_items_ind(items, &"    ".repeat(depth), out) }
/// `ind`: the indentation of this level; a loop's body is indented by the loop's own unit `w` (1 = a tab; default 4 spaces)
fn render_items_ind(items: &J, ind: &str, out: &mut String) {
    for it in items.as_array().unwrap() {
        if it["k"] == "decl" {
            out.push_str(&tmpl(it["t"].as_str().unwrap(), &it["uses"], None, ind));
        } else {
            let r = &it["r"];
            let op = if r["incl"].as_bool().unwrap() { "..=" } else { ".." };
            out.push_str(&format!("{ind}for {} in {}{}{}:\n", it["v"].as_str().unwrap(), r["lo"], op, r["hi"]));
            let unit = match it["w"].as_u64() { None => "    ".to_string(), Some(1) => "\t".to_string(), Some(n) => " ".repeat(n as usize) };
            render_items_ind(&it["body"], &format!("{ind}{unit}"), out);
        }
    }
}
fn nodes(src: &str) -> Result<Vec<String>, String> {
    match catch(|| varpulis_parser::parse(src)) {
        Ok(r) => r.map(|p| p.statements.iter().map(|s| format!("{:?}", s.node)).collect()).map_err(|e| e.to_string()),
        Err(p) => Err(format!("PANIC {p}")),
    }
}
/// args: cases.ndjson report.json
pub fn for_expand(args: &[String]) {
    let cases = read_cases(&args[0]);
    let mut rep = Report::new();
    for c in &cases {
        let mut looped = String::new();
        render_items(&c["prog"], 0, &mut looped);
        let mut hand = String::new();
        for e in c["exp"].as_array().unwrap() {
            let uses: J = match &e["vals"] { J::Object(m) => J::Array(m.keys().map(|k| J::String(k.clone())).collect()), _ => J::Array(vec![]) };
            hand.push_str(&tmpl(e["t"].as_str().unwrap(), &uses, Some(&e["vals"]), ""));
        }
        let small = json!({"looped": looped, "hand": hand});
        rep.case(&small, c["exp"].as_array().unwrap().len() > 2);
        match (nodes(&looped), nodes(&hand)) {
            (Ok(a), Ok(b)) => if a != b { rep.violation(&["C42"], "for-loop program and its hand expansion parse to different programs", &small, json!(b.len()), json!(a.len())); },
            (Err(a), Err(_)) if !a.starts_with("PANIC") => rep.count("both_reject", 1),
            (a, b) => rep.violation(&["C42"], "only one of looped / hand-expanded source parses", &small, json!(b.err()), json!(a.err())),
        }
    }
    rep.write(&args[1]);
}

// ------------------------------------------------------------------ C46
fn line_of(form: &str, i: usize) -> String {
    let id = i + 1;
    match form {
        "plain" => format!("A {{ id: {id}, x: 2.5, s: \"a b\" }}"),
        "plain_semi" => format!("B {{ id: {id} }};"),
        "empty_body" => "C { }".to_string(),
        "no_body" => "D".to_string(),
        "batch" => "BATCH 100".to_string(),
        "at_s" => format!("@1s E {{ id: {id} }}"),
        "at_ms" => format!("@250ms F {{ id: {id} }}"),
        "at_only" => "@2s".to_string(),
        "jsonl" => format!("{{\"event_type\": \"G\", \"id\": {id}}}"),
        "at_jsonl" => format!("@1s {{\"event_type\": \"K\", \"data\": {{\"id\": {id}, \"s\": \"x\"}}}}"),
        "comment" => "# a comment".to_string(),
        "comment2" => "// a comment".to_string(),
        "blank" => "".to_string(),
        "indented" => format!("    H {{ id: {id} }}"),
        "nested" => format!("I {{ a: [1, 2], m: {{ k: \"v\" }}, id: {id} }}"),
        "bad" => "J { id:".to_string(),
        f => panic!("form {f}"),
    }
}
fn ev_sig(e: &varpulis_runtime::event::Event) -> String {
    let mut ks: Vec<String> = e.data.iter().map(|(k, v)| format!("{k}={v:?}")).collect();
    ks.sort();
    format!("{}({})", e.event_type, ks.join(","))
}
/// args: cases.ndjson report.json
pub fn event_file(args: &[String]) {
    let cases = read_cases(&args[0]);
    let mut rep = Report::new();
    for c in &cases {
        let forms: Vec<&str> = c["file"].as_array().unwrap().iter().map(|f| f.as_str().unwrap()).collect();
        let text: String = forms.iter().enumerate().map(|(i, f)| line_of(f, i) + "\n").collect();
        let small = json!({"file": text});
        let pre = catch(|| EventFileParser::parse(&text));
        let strm = catch(|| { let mut out = vec![]; for r in StreamingEventReader::new(std::io::Cursor::new(text.as_bytes().to_vec())) { match r { Ok(e) => out.push(e), Err(e) => return Err(e) } } Ok(out) });
        rep.case(&small, c["n"].as_u64().unwrap() > 0);
        let (pre, strm) = match (pre, strm) {
            (Ok(a), Ok(b)) => (a, b),
            _ => { rep.violation(&["C46"], "a reader panicked", &small, J::Null, J::Null); continue; }
        };
        match (&pre, &strm) {
            (Err(_), Err(_)) => rep.count("both_reject", 1),
            (Ok(a), Ok(b)) => {
                let sa: Vec<String> = a.iter().map(|t| ev_sig(&t.event)).collect();
                let sb: Vec<String> = b.iter().map(ev_sig).collect();
                if sa != sb { rep.violation(&["C46"], "preloading and streaming reader produce different event sequences", &small, json!(sa), json!(sb)); }
                else if !c["rejects"].as_bool().unwrap() && sa.len() as u64 != c["n"].as_u64().unwrap() { rep.drift(&["C46"], "both readers agree but read another number of events than the format reference", &small); }
            }
            (a, b) => rep.violation(&["C46"], "one reader rejects the file, the other reads it", &small, json!(a.as_ref().map(|v| v.len()).map_err(|e| e.clone())), json!(b.as_ref().map(|v| v.len()).map_err(|e| e.clone()))),
        }
    }
    rep.write(&args[1]);
}
