//! C26 / C27: spec/context/Contexts.tla schedules replayed deterministically on real ContextRuntimes.
//! The harness owns every channel end between the contexts (it IS the network): the producer's queue and the
//! producer->consumer link are bounded channels of the model's capacity; a context "takes one message" when the harness moves
//! one message into the real runtime's inbox and waits for a fence (a checkpoint barrier with a reserved id) to be acknowledged.
use crate::util::*;
use rustc_hash::FxHashMap;
use serde_json::{json, Value as J};
use std::sync::Arc;
use tokio::sync::{mpsc, watch};
use varpulis_runtime::context::{filter_program_for_context, CheckpointAck, CheckpointBarrier, ContextMessage, ContextRuntime};
use varpulis_runtime::engine::Engine;
use varpulis_runtime::event::Event;

const SRC: &str = "context c1\ncontext c2\n\nstream D = A\n    .context(c1)\n    .emit(id: id)\n\nstream E = D\n    .context(c2)\n    .emit(eid: id)\n";
const MODEL_BARRIER: u64 = 7;

fn spawn_ctx(name: &str, program: &varpulis_core::ast::Program, cmap: &varpulis_runtime::context::ContextMap, routing: FxHashMap<String, String>,
             all_txs: FxHashMap<String, mpsc::Sender<ContextMessage>>, out_tx: mpsc::Sender<Event>, ack_tx: mpsc::Sender<CheckpointAck>,
             shutdown_rx: watch::Receiver<bool>) -> mpsc::Sender<ContextMessage> {
    let (in_tx, in_rx) = mpsc::channel::<ContextMessage>(64);
    let filtered = filter_program_for_context(program, name, cmap);
    let name_s = name.to_string();
    std::thread::spawn(move || {
        let rt = tokio::runtime::Builder::new_current_thread().enable_all().build().unwrap();
        rt.block_on(async move {
            let (eng_tx, eng_rx) = mpsc::channel(1000);
            let mut engine = Engine::new(eng_tx);
            engine.set_context_name(&name_s);
            engine.load(&filtered).unwrap();
            let mut rtm = ContextRuntime::new(name_s, engine, out_tx, in_rx, eng_rx, all_txs, routing, shutdown_rx).with_ack_sender(ack_tx);
            rtm.run().await;
        });
    });
    in_tx
}

struct World {
    c1_in: mpsc::Sender<ContextMessage>,
    c2_in: mpsc::Sender<ContextMessage>,
    qp_tx: mpsc::Sender<ContextMessage>,
    qp_rx: mpsc::Receiver<ContextMessage>,
    link_tx: mpsc::Sender<ContextMessage>,
    link_rx: mpsc::Receiver<ContextMessage>,
    out_rx: mpsc::Receiver<Event>,
    ack_rx: mpsc::Receiver<CheckpointAck>,
    sd: watch::Sender<bool>,
    fence: u64,
    snap_p: Option<u64>,
    snap_c: Option<u64>,
}

fn world(cap: usize) -> World {
    let program = varpulis_parser::parse(SRC).unwrap();
    let (tx0, _rx0) = mpsc::channel::<Event>(10);
    let mut probe = Engine::new(tx0);
    probe.load(&program).unwrap();
    let cmap = probe.context_map().clone();
    let mut routing: FxHashMap<String, String> = FxHashMap::default();
    routing.insert("A".into(), "c1".into());
    routing.insert("D".into(), "c2".into());
    let (out_tx, out_rx) = mpsc::channel::<Event>(100000);
    let (ack_tx, ack_rx) = mpsc::channel::<CheckpointAck>(1000);
    let (sd, sd_rx) = watch::channel(false);
    let (qp_tx, qp_rx) = mpsc::channel::<ContextMessage>(cap);
    let (link_tx, link_rx) = mpsc::channel::<ContextMessage>(cap);
    let mut txs1: FxHashMap<String, mpsc::Sender<ContextMessage>> = FxHashMap::default();
    txs1.insert("c2".into(), link_tx.clone());
    let c1_in = spawn_ctx("c1", &program, &cmap, routing.clone(), txs1, out_tx.clone(), ack_tx.clone(), sd_rx.clone());
    let c2_in = spawn_ctx("c2", &program, &cmap, routing, FxHashMap::default(), out_tx, ack_tx, sd_rx);
    World { c1_in, c2_in, qp_tx, qp_rx, link_tx, link_rx, out_rx, ack_rx, sd, fence: 1000, snap_p: None, snap_c: None }
}

impl World {
    /// wait until `ctx` has processed everything sent to it so far; acks of the model-level barrier are recorded on the way
    async fn fence(&mut self, ctx: &str) {
        self.fence += 1;
        let id = self.fence;
        let tx = if ctx == "c1" { &self.c1_in } else { &self.c2_in };
        tx.send(ContextMessage::CheckpointBarrier(CheckpointBarrier { checkpoint_id: id, timestamp_ms: 0 })).await.unwrap();
        loop {
            let a = tokio::time::timeout(std::time::Duration::from_secs(60), self.ack_rx.recv()).await.expect("fence timed out").unwrap();
            if a.checkpoint_id == MODEL_BARRIER {
                if a.context_name == "c1" { self.snap_p = Some(a.engine_checkpoint.events_processed); } else { self.snap_c = Some(a.engine_checkpoint.events_processed); }
                continue;
            }
            if a.checkpoint_id == id && a.context_name == ctx { return; }
        }
    }
}

async fn run_schedule(c: &J) -> J {
    let cap = c["cap"].as_u64().unwrap() as usize;
    let mut w = world(cap);
    let mut next = 1i64;
    let mut ok_sched = true;
    for a in c["hist"].as_array().unwrap() {
        match a.as_str().unwrap() {
            "ingest" => { if w.qp_tx.try_send(ContextMessage::Event(Arc::new(Event::new("A").with_field("id", next)))).is_err() { ok_sched = false; } next += 1; }
            "initiate" => {
                // CheckpointCoordinator::initiate: the barrier goes into every context's queue
                let b = || ContextMessage::CheckpointBarrier(CheckpointBarrier { checkpoint_id: MODEL_BARRIER, timestamp_ms: 0 });
                if w.qp_tx.try_send(b()).is_err() { ok_sched = false; }
                if w.link_tx.try_send(b()).is_err() { ok_sched = false; }
            }
            "stepP" => { match w.qp_rx.try_recv() { Ok(m) => { w.c1_in.send(m).await.unwrap(); w.fence("c1").await; } Err(_) => ok_sched = false } }
            "stepC" => { match w.link_rx.try_recv() { Ok(m) => { w.c2_in.send(m).await.unwrap(); w.fence("c2").await; } Err(_) => ok_sched = false } }
            x => panic!("step {x}"),
        }
    }
    // what is still in flight on the link
    let mut inflight = vec![];
    while let Ok(m) = w.link_rx.try_recv() { if let ContextMessage::Event(e) = m { if let Some(varpulis_core::Value::Int(i)) = e.data.get("id") { inflight.push(*i); } } }
    tokio::time::sleep(std::time::Duration::from_millis(5)).await;
    let (mut st_p, mut st_c) = (vec![], vec![]);
    while let Ok(e) = w.out_rx.try_recv() {
        match &*e.event_type {
            "D" => if let Some(varpulis_core::Value::Int(i)) = e.data.get("id") { st_p.push(*i) },
            "E" => if let Some(varpulis_core::Value::Int(i)) = e.data.get("eid") { st_c.push(*i) },
            _ => {}
        }
    }
    let _ = w.sd.send(true);
    json!({"stP": st_p, "stC": st_c, "inflight": inflight, "snapP": w.snap_p, "snapC": w.snap_c, "sched_ok": ok_sched})
}

/// args: cases.ndjson report.json
pub fn replay(args: &[String]) {
    let cases = read_cases(&args[0]);
    let mut rep = Report::new();
    let rt = tokio::runtime::Builder::new_multi_thread().worker_threads(2).enable_all().build().unwrap();
    for c in &cases {
        let small = json!({"cap": c["cap"], "hist": c["hist"]});
        let first = catch(|| rt.block_on(run_schedule(c)));
        let first = match first { Err(p) if p.contains("fence timed out") => { rep.count("fence_timeout_retried", 1); catch(|| rt.block_on(run_schedule(c))) } x => x };
        let r = match first { Ok(r) => r, Err(p) => { rep.case(&small, true); rep.violation(&["C26", "C27"], &format!("context runtime panicked / fence timed out: {p}"), &small, J::Null, J::Null); continue; } };
        let ints = |v: &J| -> Vec<i64> { v.as_array().map(|a| a.iter().map(|x| x.as_i64().unwrap()).collect()).unwrap_or_default() };
        let (st_p, st_c, infl) = (ints(&r["stP"]), ints(&r["stC"]), ints(&r["inflight"]));
        rep.case(&small, !st_c.is_empty());
        let (m_p, m_c) = (ints(&c["stP"]), ints(&c["stC"]));
        let conform = st_p == m_p && st_c == m_c && r["sched_ok"] == true;
        if !conform { rep.count("model_mismatch", 1); }
        // ---- C26: produced = consumed (in order, once) + in flight ----
        let prefix = st_c.len() <= st_p.len() && st_c.iter().zip(st_p.iter()).all(|(a, b)| a == b);
        let mut acc: Vec<i64> = st_c.iter().chain(infl.iter()).cloned().collect();
        acc.sort();
        let mut prod = st_p.clone();
        prod.sort();
        let delivered = prefix && acc == prod;
        if !delivered {
            if conform && !c["delivered"].as_bool().unwrap() { rep.known(&["C26"], "C26-forward-drops-on-full-queue", "an event forwarded to a context whose queue is full is dropped"); }
            else { rep.violation(&["C26"], "events passed between contexts were lost, duplicated or reordered beyond what the faithful model predicts", &small, json!({"model_stP": m_p, "model_stC": m_c}), r.clone()); }
        }
        // ---- C27: completed checkpoint = consistent cut ----
        if let (Some(sp), Some(sc)) = (r["snapP"].as_u64(), r["snapC"].as_u64()) {
            rep.count("completed_checkpoints", 1);
            let (mp, mc) = (c["snapP"]["v"].as_array().map(|a| a.len() as u64).unwrap_or(0), c["snapC"]["v"].as_array().map(|a| a.len() as u64).unwrap_or(0));
            let snap_conform = sp == mp && sc == mc;
            // consistent iff what P had produced at its snapshot equals what C had consumed at its snapshot
            if sp != sc {
                if snap_conform && !c["cut"].as_bool().unwrap() { rep.known(&["C27"], "C27-barrier-injected-into-every-queue", "completed checkpoint with an event in flight that is in no snapshot"); }
                else { rep.violation(&["C27"], "completed coordinated checkpoint is not a consistent cut, beyond what the faithful model predicts", &small, json!({"model_snapP": mp, "model_snapC": mc}), json!({"snapP": sp, "snapC": sc})); }
            } else if !snap_conform { rep.drift(&["C27"], "snapshot positions differ from the model but the cut is consistent", &small); }
        }
    }
    rep.write(&args[1]);
}

// ------------------------------------------------------------------ coordinator protocol (CkptCoord.tla)
/// One schedule of CkptCoord.tla on real ContextRuntimes and the real CheckpointCoordinator (+ CheckpointManager on a MemoryStore).
/// Barriers are sent by the real `initiate` into the harness-owned queues; acks of real barriers are handed to the coordinator's own
/// ack channel in arrival order; "drain" is the real `try_complete`.  Returns the completed checkpoints as (p, c) positions and, per
/// step, whether the coordinator reports a pending checkpoint.
async fn run_coord_schedule(c: &J) -> J {
    use varpulis_runtime::context::CheckpointCoordinator;
    use varpulis_runtime::persistence::{CheckpointConfig, CheckpointManager, MemoryStore, StateStore};
    let cap = c["cap"].as_u64().unwrap() as usize;
    let mut w = world(cap);
    let store: Arc<dyn StateStore> = Arc::new(MemoryStore::new());
    let mgr = CheckpointManager::new(store.clone(), CheckpointConfig { interval: std::time::Duration::from_secs(3600), max_checkpoints: 100, checkpoint_on_shutdown: false, key_prefix: "vh".into() }).unwrap();
    let mut coord = CheckpointCoordinator::new(mgr, vec!["c1".into(), "c2".into()]);
    let coord_ack = coord.ack_sender();
    let mut txs: FxHashMap<String, mpsc::Sender<ContextMessage>> = FxHashMap::default();
    txs.insert("c1".into(), w.qp_tx.clone());
    txs.insert("c2".into(), w.link_tx.clone());
    let mut next = 1i64;
    let mut ok_sched = true;
    let mut pend = vec![];
    let mut fence_id = 1000u64;
    // fence: like World::fence, but acks of real barriers go to the coordinator's channel
    macro_rules! fence { ($ctx:expr) => {{
        fence_id += 1;
        let tx = if $ctx == "c1" { &w.c1_in } else { &w.c2_in };
        tx.send(ContextMessage::CheckpointBarrier(CheckpointBarrier { checkpoint_id: fence_id, timestamp_ms: 0 })).await.unwrap();
        loop {
            let a = tokio::time::timeout(std::time::Duration::from_secs(60), w.ack_rx.recv()).await.expect("fence timed out").unwrap();
            if a.checkpoint_id < 1000 { if coord_ack.try_send(a).is_err() { ok_sched = false; } continue; }
            if a.checkpoint_id == fence_id && a.context_name == $ctx { break; }
        }
    }}}
    for a in c["hist"].as_array().unwrap() {
        match a.as_str().unwrap() {
            "ingest" => { if w.qp_tx.try_send(ContextMessage::Event(Arc::new(Event::new("A").with_field("id", next)))).is_err() { ok_sched = false; } next += 1; }
            "initiate" => coord.initiate(&txs),
            "drain" => { if let Err(e) = coord.try_complete() { panic!("try_complete: {e}"); } }
            "stepP" => { match w.qp_rx.try_recv() { Ok(m) => { w.c1_in.send(m).await.unwrap(); fence!("c1"); } Err(_) => ok_sched = false } }
            "stepC" => { match w.link_rx.try_recv() { Ok(m) => { w.c2_in.send(m).await.unwrap(); fence!("c2"); } Err(_) => ok_sched = false } }
            x => panic!("step {x}"),
        }
        pend.push(coord.has_pending());
    }
    let mut done = vec![];
    for id in store.list_checkpoints().unwrap() {
        if let Ok(Some(cp)) = store.load_checkpoint(id) {
            let p = cp.context_states.get("c1").map(|e| e.events_processed);
            let cc = cp.context_states.get("c2").map(|e| e.events_processed);
            done.push(json!({"p": p, "c": cc, "contexts": cp.context_states.len()}));
        }
    }
    let _ = w.sd.send(true);
    json!({"done": done, "pending": pend, "sched_ok": ok_sched})
}

/// args: cases.ndjson report.json
pub fn coord_replay(args: &[String]) {
    let cases = read_cases(&args[0]);
    let mut rep = Report::new();
    let rt = tokio::runtime::Builder::new_multi_thread().worker_threads(2).enable_all().build().unwrap();
    for c in &cases {
        let small = json!({"cap": c["cap"], "hist": c["hist"]});
        let first = catch(|| rt.block_on(run_coord_schedule(c)));
        let first = match first { Err(p) if p.contains("fence timed out") => { rep.count("fence_timeout_retried", 1); catch(|| rt.block_on(run_coord_schedule(c))) } x => x };
        let r = match first { Ok(r) => r, Err(p) => { rep.case(&small, true); rep.violation(&["C27"], &format!("coordinator / context runtime panicked or a fence timed out: {p}"), &small, J::Null, J::Null); continue; } };
        let real: Vec<(u64, u64, u64)> = r["done"].as_array().unwrap().iter().map(|d| (d["p"].as_u64().unwrap_or(u64::MAX), d["c"].as_u64().unwrap_or(u64::MAX), d["contexts"].as_u64().unwrap())).collect();
        let model: Vec<(u64, u64, u64)> = c["done"].as_array().map(|a| a.iter().map(|d| (d["p"].as_u64().unwrap(), d["c"].as_u64().unwrap(), 2)).collect()).unwrap_or_default();
        rep.case(&small, !model.is_empty());
        rep.count("completed_checkpoints", real.len() as u64);
        let conform = real == model && r["sched_ok"] == true;
        if !conform { rep.count("model_mismatch", 1); }
        // property level: every completed checkpoint holds every context and is a consistent cut
        let bad: Vec<&(u64, u64, u64)> = real.iter().filter(|(p, cc, n)| *n != 2 || p != cc).collect();
        if !bad.is_empty() {
            // attributed to the recorded finding only when the faithful model predicts exactly these checkpoints
            if conform { rep.known(&["C27"], "C27-barrier-injected-into-every-queue", "completed checkpoint with an event in flight that is in no snapshot"); }
            else { rep.violation(&["C27"], "a completed coordinated checkpoint is not a consistent cut, and not one the faithful model of the coordinator predicts", &small, json!({"model_checkpoints": model}), json!({"real_checkpoints": real})); }
        } else if !conform {
            rep.drift(&["C27"], "completed checkpoints differ from the coordinator model but each is a consistent cut", &small);
        }
    }
    rep.write(&args[1]);
}

/// args: report.json nevents — the real ContextOrchestrator under a burst, against the same program without contexts
pub fn load(args: &[String]) {
    use varpulis_runtime::context::ContextOrchestrator;
    let n: i64 = args[1].parse().unwrap();
    let mut rep = Report::new();
    let rt = tokio::runtime::Builder::new_multi_thread().worker_threads(2).enable_all().build().unwrap();
    // the consumer in the second context names its upstream stream in several ways (each has a single upstream producer):
    // bare identifier, aliased single step, two-step sequence over the upstream stream, Kleene over it
    let shape = args.get(2).map(|s| s.as_str()).unwrap_or("ident").to_string();
    let head = "stream Filtered = Reading\n{CTX1}    .where(v >= 0)\n    .emit(seq: seq, v: v)\n\n";
    let consumer = match shape.as_str() {
        "ident" => "stream Analysis = Filtered\n{CTX2}    .where(v >= 1)\n    .emit(seq: seq)\n",
        "alias" => "stream Analysis = Filtered as f\n{CTX2}    .emit(seq: f.seq)\n",
        "seq" => "stream Analysis = Filtered as x\n    -> Filtered where v > x.v as y\n{CTX2}    .emit(seq: y.seq)\n",
        "kleene" => "stream Analysis = Filtered as x\n    -> all Filtered where v == 1 as y\n    -> Filtered where v == 2 as z\n{CTX2}    .emit(seq: z.seq)\n",
        s => panic!("shape {s}"),
    };
    let src_s = format!("context ingest\ncontext analytics\n\n{}{}", head.replace("{CTX1}", "    .context(ingest)\n"), consumer.replace("{CTX2}", "    .context(analytics)\n"));
    let plain_s = format!("{}{}", head.replace("{CTX1}", ""), consumer.replace("{CTX2}", ""));
    let (src, plain) = (src_s.as_str(), plain_s.as_str());
    let events: Vec<Event> = (0..n).map(|i| Event::new("Reading").with_field("seq", i).with_field("v", i % 3)).collect();
    let collect = |outs: Vec<Event>| -> (Vec<i64>, Vec<i64>) {
        let mut f = vec![]; let mut a = vec![];
        for e in outs { let s = match e.data.get("seq") { Some(varpulis_core::Value::Int(i)) => *i, _ => -1 }; if &*e.event_type == "Filtered" { f.push(s) } else if &*e.event_type == "Analysis" { a.push(s) } }
        (f, a)
    };
    // reference: no contexts
    let reference = rt.block_on(async {
        let (tx, mut rx) = mpsc::channel::<Event>((4 * n) as usize);
        let mut e = Engine::new(tx);
        e.load(&varpulis_parser::parse(plain).unwrap()).unwrap();
        for ev in &events { e.process(ev.clone()).await.unwrap(); }
        let mut v = vec![]; while let Ok(o) = rx.try_recv() { v.push(o); } v
    });
    let (rf, ra) = collect(reference);
    let expected = rf.len() + ra.len();
    let r = catch(|| rt.block_on(async {
        let program = varpulis_parser::parse(src).unwrap();
        let (tx0, _r0) = mpsc::channel::<Event>(10);
        let mut probe = Engine::new(tx0);
        probe.load(&program).unwrap();
        let (out_tx, mut out_rx) = mpsc::channel::<Event>((4 * n) as usize);
        let orch = ContextOrchestrator::build(probe.context_map(), &program, out_tx, (4 * n) as usize).map_err(|e| format!("build: {e}"))?;
        for ev in &events { orch.process(Arc::new(ev.clone())).await.map_err(|e| format!("process: {e}"))?; }
        // wait for quiescence: outputs stop arriving
        // (until the reference's number of outputs has arrived and nothing follows for 1 s; a shortfall is only believed after 30 s
        // without any output, so that a starved context thread on a loaded machine is not taken for a loss)
        let mut v = vec![];
        let mut idle = 0;
        while idle < (if v.len() >= expected { 20 } else { 600 }) {
            match tokio::time::timeout(std::time::Duration::from_millis(50), out_rx.recv()).await { Ok(Some(o)) => { v.push(o); idle = 0; } _ => idle += 1 }
        }
        orch.shutdown();
        Ok::<_, String>(v)
    }));
    let case = json!({"events": n, "shape": shape, "program": src});
    rep.case(&case, true);
    rep.case(&json!({"events": n, "reference": "same program without contexts"}), true);
    match r {
        Err(p) => rep.violation(&["C26"], &format!("orchestrator panicked: {p}"), &case, J::Null, J::Null),
        Ok(Err(e)) => rep.violation(&["C26"], &format!("orchestrator failed: {e}"), &case, J::Null, J::Null),
        Ok(Ok(outs)) => {
            let (f, a) = collect(outs);
            if f != rf { rep.violation(&["C26"], "stream Filtered: context run differs from the run without contexts (per-stream order / multiset)", &case, json!({"n": rf.len()}), json!({"n": f.len(), "first_diff": f.iter().zip(rf.iter()).position(|(x, y)| x != y)})); }
            if a != ra { rep.violation(&["C26"], "stream Analysis: context run differs from the run without contexts (per-stream order / multiset)", &case, json!({"n": ra.len()}), json!({"n": a.len(), "first_diff": a.iter().zip(ra.iter()).position(|(x, y)| x != y)})); }
            rep.count("load_outputs", (f.len() + a.len()) as u64);
        }
    }
    rep.write(&args[0]);
}
