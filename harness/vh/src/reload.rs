//! C23: spec/reload/Reload.tla cases on the real Engine::reload.
use crate::util::*;
use chrono::{Duration, TimeZone, Utc};
use serde_json::{json, Value as J};
use varpulis_runtime::engine::Engine;
use varpulis_runtime::event::Event;

const AGG: &str = "    .aggregate(n: count(), sm: sum(id), f: first(id), l: last(id))\n    .emit(n: n, sm: sm, f: f, l: l)\n";
/// (P, P', name of the stream whose behaviour is compared)
fn programs(cls: &str) -> (String, String, &'static str) {
    let id = |p: String| (p.clone(), p, "S");
    match cls {
        "id_count" => id(format!("stream S = A\n    .window(3)\n{AGG}")),
        "id_slidingcount" => id(format!("stream S = A\n    .window(3, sliding: 1)\n{AGG}")),
        "id_tumbling" => id(format!("stream S = A\n    .window(3s)\n{AGG}")),
        "id_filter" => id("stream S = A\n    .where(x > 1)\n    .emit(id: id, x: x)\n".into()),
        "id_seq" => id("stream S = A as a\n    -> B as b\n    .emit(ai: a.id, bi: b.id)\n".into()),
        "id_kleene" => id("stream S = A as a\n    -> all B as b\n    -> C as c\n    .emit(ai: a.id, bi: b.id, ci: c.id)\n".into()),
        "id_join" => id("stream SA = A\nstream SB = B\n\nstream S = join(SA, SB)\n    .on(SA.k == SB.k)\n    .window(100s)\n    .select(a: SA.id, b: SB.id)\n    .emit(a: a, b: b)\n".into()),
        "id_merge_window" => id(format!("stream S = merge(A, B)\n    .window(2)\n{AGG}")),
        "id_part_window" => id(format!("stream S = A\n    .partition_by(k)\n    .window(2)\n{AGG}")),
        "id_two_streams" => id(format!("stream D = A\n    .where(x > 0)\n    .emit(id: id, x: x)\n\nstream S = D\n    .window(2)\n{AGG}")),
        "ch_threshold" => ("stream S = A\n    .where(x > 2)\n    .emit(id: id, x: x)\n".into(), "stream S = A\n    .where(x > 0)\n    .emit(id: id, x: x)\n".into(), "S"),
        "ch_add_where" => ("stream S = A\n    .emit(id: id, x: x)\n".into(), "stream S = A\n    .where(x > 1)\n    .emit(id: id, x: x)\n".into(), "S"),
        "ch_window_size" => (format!("stream S = A\n    .window(3)\n{AGG}"), format!("stream S = A\n    .window(2)\n{AGG}"), "S"),
        "ch_merge_gains_input" => (format!("stream S = merge(A, B)\n    .window(2)\n{AGG}"), format!("stream S = merge(A, B, C)\n    .window(2)\n{AGG}"), "S"),
        "ch_emit_field" => ("stream S = A\n    .where(x > 0)\n    .emit(id: id)\n".into(), "stream S = A\n    .where(x > 0)\n    .emit(id: id, twice: x * 2)\n".into(), "S"),
        // only stream T changes: S (window state!) must keep working with its state
        "ch_other_stream_only" => (format!("stream S = A\n    .window(3)\n{AGG}\nstream T = B\n    .where(x > 2)\n    .emit(id: id)\n"), format!("stream S = A\n    .window(3)\n{AGG}\nstream T = B\n    .where(x > 0)\n    .where(x < 9)\n    .emit(id: id)\n"), "S"),
        "ch_rename" => (format!("stream S0 = A\n    .window(3)\n{AGG}"), format!("stream S = A\n    .window(3)\n{AGG}"), "S"),
        "ch_remove_op" => ("stream S = A\n    .where(x > 0)\n    .where(x < 3)\n    .emit(id: id, x: x)\n".into(), "stream S = A\n    .where(x > 0)\n    .emit(id: id, x: x)\n".into(), "S"),
        "ch_seq_step_added" => ("stream S = A as a\n    -> B as b\n    .emit(ai: a.id, bi: b.id)\n".into(), "stream S = A as a\n    -> B as b\n    -> C as c\n    .emit(ai: a.id, bi: b.id, ci: c.id)\n".into(), "S"),
        "ch_seq_predicate" => ("stream S = A as a\n    -> B as b\n    .where(b.x > 2)\n    .emit(ai: a.id, bi: b.id)\n".into(), "stream S = A as a\n    -> B as b\n    .where(b.x > 0)\n    .emit(ai: a.id, bi: b.id)\n".into(), "S"),
        // upstream D changes; the watched downstream stream is unchanged and must keep its window state
        "ch_upstream_only" => (format!("stream D = A\n    .where(x > 0)\n    .emit(id: id, x: x)\n\nstream S = B\n    .window(3)\n{AGG}"), format!("stream D = A\n    .where(x > 1)\n    .emit(id: id, x: x)\n\nstream S = B\n    .window(3)\n{AGG}"), "S"),
        // changes INSIDE the source expression (operation chain textually identical)
        "ch_src_merge_branch_filter" => ("stream S = merge(\n        stream H = A .where(x > 2),\n        stream L = B .where(x < 1)\n    )\n    .emit(id: id, x: x)\n".into(), "stream S = merge(\n        stream H = A .where(x > 0),\n        stream L = B .where(x < 1)\n    )\n    .emit(id: id, x: x)\n".into(), "S"),
        "ch_src_step_filter" => ("stream S = A as a\n    -> B where x > 2 as b\n    .emit(ai: a.id, bi: b.id)\n".into(), "stream S = A as a\n    -> B where x > 0 as b\n    .emit(ai: a.id, bi: b.id)\n".into(), "S"),
        "ch_src_step_all" => ("stream S = A as a\n    -> B as b\n    -> C as c\n    .emit(ai: a.id, bi: b.id, ci: c.id)\n".into(), "stream S = A as a\n    -> all B as b\n    -> C as c\n    .emit(ai: a.id, bi: b.id, ci: c.id)\n".into(), "S"),
        "ch_src_second_type" => ("stream S = A as a\n    -> B as b\n    .emit(ai: a.id, bi: b.id)\n".into(), "stream S = A as a\n    -> C as b\n    .emit(ai: a.id, bi: b.id)\n".into(), "S"),
        "ch_src_join_key" => ("stream SA = A\nstream SB = B\n\nstream S = join(SA, SB)\n    .on(SA.k == SB.k)\n    .window(100s)\n    .select(a: SA.id, b: SB.id)\n    .emit(a: a, b: b)\n".into(), "stream SA = A\nstream SB = B\n\nstream S = join(SA, SB)\n    .on(SA.x == SB.x)\n    .window(100s)\n    .select(a: SA.id, b: SB.id)\n    .emit(a: a, b: b)\n".into(), "S"),
        c => panic!("class {c}"),
    }
}

fn fmt(ev: &Event) -> String {
    let mut f: Vec<String> = ev.data.iter().filter(|(k, _)| &***k != "match_duration_ms").map(|(k, v)| format!("{k}={v}")).collect();
    f.sort();
    format!("{} {{{}}}", ev.event_type, f.join(","))
}

/// outputs (of stream `watch`) produced by the events from index `from` on
fn run(rt: &tokio::runtime::Runtime, p1: &str, p2: Option<&str>, at: usize, events: &[Event], from: usize, watch: &str) -> Result<Vec<String>, String> {
    let (tx, mut rx) = tokio::sync::mpsc::channel::<Event>(100000);
    let mut e = Engine::new(tx);
    e.load(&varpulis_parser::parse(p1).map_err(|x| format!("parse: {x}"))?).map_err(|x| format!("load: {x}"))?;
    let mut out = vec![];
    for (i, ev) in events.iter().enumerate() {
        if i == at { if let Some(p2) = p2 { e.reload(&varpulis_parser::parse(p2).map_err(|x| format!("parse P': {x}"))?).map_err(|x| format!("reload: {x}"))?; } }
        match catch(|| rt.block_on(e.process(ev.clone()))) { Ok(Ok(())) => {} Ok(Err(x)) => return Err(format!("process: {x}")), Err(p) => return Err(format!("panic: {p}")) }
        while let Ok(o) = rx.try_recv() { if i >= from && &*o.event_type == watch { out.push(fmt(&o)); } }
    }
    Ok(out)
}

fn known_for(cls: &str) -> Option<&'static str> {
    match cls {
        _ => { let _ = cls; None }
    }
}

/// args: cases.ndjson report.json
pub fn replay(args: &[String]) {
    let cases = read_cases(&args[0]);
    let mut rep = Report::new();
    let rt = tokio::runtime::Builder::new_current_thread().enable_all().build().unwrap();
    for c in &cases {
        let cls = c["cls"].as_str().unwrap();
        let (p1, p2, watch) = programs(cls);
        let mut t = 0i64;
        let events: Vec<Event> = c["stream"].as_array().unwrap().iter().enumerate().map(|(i, e)| {
            t += e["dt"].as_i64().unwrap();
            Event::new(e["type"].as_str().unwrap()).with_field("id", (i + 1) as i64).with_field("k", e["k"].as_i64().unwrap()).with_field("x", e["x"].as_i64().unwrap())
                .with_timestamp(Utc.timestamp_opt(6_000_000, 0).unwrap() + Duration::seconds(t))
        }).collect();
        let at = (c["at"].as_u64().unwrap() as usize).min(events.len());
        let small = json!({"class": cls, "P": p1, "P2": p2, "reload_before_event": at + 1, "stream": c["stream"]});
        let identity = cls.starts_with("id_") || cls == "ch_other_stream_only" || cls == "ch_upstream_only";
        let reloaded = run(&rt, &p1, Some(&p2), at, &events, at, watch);
        // oracle: identity (or an edit that does not touch the watched stream) -> never-reloaded twin; change -> fresh P' engine on the suffix
        let oracle = if identity { run(&rt, &p1, None, at, &events, at, watch) } else { run(&rt, &p2, None, usize::MAX, &events[at..], 0, watch) };
        match (reloaded, oracle) {
            (Ok(got), Ok(want)) => {
                rep.case(&small, !want.is_empty());
                rep.count(&format!("class_{cls}"), 1);
                if got != want {
                    match known_for(cls) {
                        Some(fid) => rep.known(&["C23"], fid, &format!("class {cls}")),
                        None => rep.violation(&["C23"], if identity { "reload with an unchanged definition changes the stream's later outputs" } else { "a changed stream does not behave like a freshly loaded stream of the new program" }, &small, json!(want), json!(got)),
                    }
                }
            }
            (a, b) => { rep.case(&small, true); rep.violation(&["C23"], "engine failed", &small, json!(b.err()), json!(a.err())); }
        }
    }
    rep.write(&args[1]);
}
