//! Binding of spec/expr/Expr.tla (evaluator, folder, SASE predicate transcription) to the real code.
//! Each TLC case = (expression tree, environment, model value, model folded value, model .where verdict,
//! model step verdict, mathematical verdict for numeric comparisons).
use crate::util::*;
use rustc_hash::FxHashMap;
use serde_json::{json, Value as J};
use varpulis_core::ast::{BinOp, Expr, Program, Stmt, UnaryOp};
use varpulis_core::span::Spanned;
use varpulis_core::Value;
use varpulis_runtime::engine::compiler::expr_to_sase_predicate;
use varpulis_runtime::engine::evaluator::{eval_binary_op, eval_expr_with_functions};
use varpulis_runtime::event::Event;
use varpulis_runtime::sase::{SaseEngine, SasePattern};
use varpulis_runtime::sequence::SequenceContext;

fn ratio(v: &J) -> f64 {
    v["n"].as_i64().unwrap() as f64 / v["d"].as_i64().unwrap() as f64
}

fn val_expr(v: &J) -> Expr {
    match v["t"].as_str().unwrap() {
        "int" => Expr::Int(v["n"].as_i64().unwrap()),
        "flt" => Expr::Float(ratio(v)),
        "str" => Expr::Str(format!("s{}", v["s"])),
        "bool" => Expr::Bool(v["b"].as_bool().unwrap()),
        "null" => Expr::Null,
        t => panic!("lit {t}"),
    }
}

fn binop(o: &str) -> BinOp {
    match o {
        "add" => BinOp::Add, "sub" => BinOp::Sub, "mul" => BinOp::Mul, "div" => BinOp::Div, "mod" => BinOp::Mod,
        "lt" => BinOp::Lt, "le" => BinOp::Le, "gt" => BinOp::Gt, "ge" => BinOp::Ge, "eq" => BinOp::Eq, "ne" => BinOp::NotEq,
        "and" => BinOp::And, "or" => BinOp::Or, o => panic!("{o}"),
    }
}

pub fn build(e: &J) -> Expr {
    match e["k"].as_str().unwrap() {
        "lit" => val_expr(&e["v"]),
        "fld" => Expr::Ident(e["name"].as_str().unwrap().into()),
        "un" => Expr::Unary { op: if e["op"] == "neg" { UnaryOp::Neg } else { UnaryOp::Not }, expr: Box::new(build(&e["e"])) },
        "bin" => Expr::Binary { op: binop(e["op"].as_str().unwrap()), left: Box::new(build(&e["l"])), right: Box::new(build(&e["r"])) },
        k => panic!("{k}"),
    }
}

/// VPL source text of the expression (None where the tree has no faithful source form).
fn render(e: &J) -> Option<String> {
    Some(match e["k"].as_str().unwrap() {
        "lit" => match e["v"]["t"].as_str().unwrap() {
            "int" => { let n = e["v"]["n"].as_i64().unwrap(); if n < 0 { return None } else { format!("{n}") } }
            "flt" => { let x = ratio(&e["v"]); if x < 0.0 { return None } else { format!("{:?}", x) } }
            "str" => format!("\"s{}\"", e["v"]["s"]),
            "bool" => format!("{}", e["v"]["b"]),
            "null" => "null".into(),
            _ => return None,
        },
        "fld" => e["name"].as_str().unwrap().to_string(),
        "un" => format!("({} {})", if e["op"] == "neg" { "-" } else { "not" }, render(&e["e"])?),
        "bin" => {
            let op = match e["op"].as_str().unwrap() {
                "add" => "+", "sub" => "-", "mul" => "*", "div" => "/", "mod" => "%", "lt" => "<", "le" => "<=", "gt" => ">", "ge" => ">=",
                "eq" => "==", "ne" => "!=", "and" => "and", "or" => "or", _ => return None,
            };
            format!("({} {} {})", render(&e["l"])?, op, render(&e["r"])?)
        }
        _ => return None,
    })
}

fn event(env: &J, ty: &str) -> Event {
    let mut ev = Event::new(ty);
    for (k, v) in env.as_object().unwrap() {
        match v["t"].as_str().unwrap() {
            "none" => {}
            "int" => ev = ev.with_field(k.as_str(), v["n"].as_i64().unwrap()),
            "flt" => ev = ev.with_field(k.as_str(), ratio(v)),
            "str" => ev = ev.with_field(k.as_str(), format!("s{}", v["s"])),
            "null" => ev = ev.with_field(k.as_str(), Value::Null),
            _ => {}
        }
    }
    ev
}

fn same(got: &Option<Value>, m: &J) -> bool {
    match (got, m["t"].as_str().unwrap()) {
        (None, "none") => true,
        (Some(Value::Int(n)), "int") => *n == m["n"].as_i64().unwrap(),
        (Some(Value::Float(f)), "flt") => { let x = ratio(m); (f - x).abs() <= 1e-9 * x.abs().max(1.0) }
        (Some(Value::Str(s)), "str") => **s == format!("s{}", m["s"]),
        (Some(Value::Str(s)), "cat") => **s == format!("s{}s{}", m["a"], m["b"]),
        (Some(Value::Bool(b)), "bool") => *b == m["b"].as_bool().unwrap(),
        (Some(Value::Null), "null") => true,
        _ => false,
    }
}

fn show(v: &Option<Value>) -> String {
    format!("{:?}", v)
}

fn values_same(a: &Option<Value>, b: &Option<Value>) -> bool {
    match (a, b) {
        (Some(Value::Float(x)), Some(Value::Float(y))) => (x.is_nan() && y.is_nan()) || x == y || (x - y).abs() <= 1e-12 * x.abs().max(1.0),
        _ => show(a) == show(b),
    }
}

struct Ctx {
    rt: tokio::runtime::Runtime,
}

fn engine_outputs(cx: &Ctx, vpl: &str, evs: Vec<Event>) -> Result<Vec<Event>, String> {
    let program = varpulis_parser::parse(vpl).map_err(|e| format!("parse: {e}"))?;
    let (tx, mut rx) = tokio::sync::mpsc::channel::<Event>(1000);
    let mut engine = varpulis_runtime::engine::Engine::new(tx);
    engine.load(&program).map_err(|e| format!("load: {e}"))?;
    let mut out = vec![];
    for ev in evs {
        match catch(|| cx.rt.block_on(engine.process(ev))) {
            Ok(Ok(())) => {}
            Ok(Err(e)) => return Err(format!("process: {e}")),
            Err(p) => return Err(format!("panic: {p}")),
        }
        while let Ok(o) = rx.try_recv() {
            out.push(o);
        }
    }
    Ok(out)
}

/// args: cases.ndjson report.json [engine-every-n]
pub fn replay(args: &[String]) {
    let cases = read_cases(&args[0]);
    let every: usize = args.get(2).and_then(|s| s.parse().ok()).unwrap_or(1);
    let mut rep = Report::new();
    let fns = FxHashMap::default();
    let binds: FxHashMap<String, Value> = FxHashMap::default();
    let cx = Ctx { rt: tokio::runtime::Builder::new_current_thread().enable_all().build().unwrap() };
    for (ci, c) in cases.iter().enumerate() {
        let expr = build(&c["e"]);
        let ev = event(&c["env"], "B");
        let small = json!({"e": render(&c["e"]).unwrap_or_else(|| c["e"].to_string()), "env": c["env"]});
        // ---------- 1. evaluator (C11: no panic; conformance with the model) ----------
        let got = match catch(|| eval_expr_with_functions(&expr, &ev, SequenceContext::empty(), &fns, &binds)) {
            Ok(g) => g,
            Err(p) => {
                rep.case(&small, true);
                rep.violation(&["C11", "C08", "C10"], &format!("evaluator panicked: {p}"), &small, J::Null, J::Null);
                continue;
            }
        };
        rep.case(&small, got.is_some());
        let conf_eval = same(&got, &c["val"]);
        if !conf_eval { rep.count("model_eval_mismatch", 1); }
        // ---------- 2. C08: numeric comparison = mathematical order ----------
        if c["numcmp"].as_bool().unwrap() {
            rep.count("numcmp_cases", 1);
            let want = Some(Value::Bool(c["math"].as_bool().unwrap()));
            if !values_same(&got, &want) {
                rep.violation(&["C08"], "comparison disagrees with the mathematical order (evaluator: .where/.emit context)", &small, json!(show(&want)), json!(show(&got)));
            }
            // pattern-expression context: eval_binary_op on the operand values
            let (l, r) = match &expr { Expr::Binary { left, right, .. } => (left.clone(), right.clone()), _ => unreachable!() };
            let lv = eval_expr_with_functions(&l, &ev, SequenceContext::empty(), &fns, &binds);
            let rv = eval_expr_with_functions(&r, &ev, SequenceContext::empty(), &fns, &binds);
            if let (Some(lv), Some(rv)) = (lv, rv) {
                let op = binop(c["e"]["op"].as_str().unwrap());
                let g2 = catch(|| eval_binary_op(&op, &lv, &rv)).unwrap_or(None);
                if !values_same(&g2, &want) {
                    let mixed = matches!((&lv, &rv), (Value::Int(_), Value::Float(_)) | (Value::Float(_), Value::Int(_)));
                    if mixed && g2.is_none() && matches!(op, BinOp::Le | BinOp::Ge) {
                        rep.known(&["C08"], "C08-pattern-expr-mixed-le-ge", "eval_binary_op has no Int/Float arms for <= and >=");
                    } else {
                        rep.violation(&["C08"], "comparison disagrees with the mathematical order (pattern-expression context: eval_binary_op)", &small, json!(show(&want)), json!(show(&g2)));
                    }
                }
            }
        }
        // ---------- 3. C10: folding ----------
        let prog = Program { statements: vec![Spanned::dummy(Stmt::Expr(expr.clone()))] };
        let folded = match catch(|| varpulis_parser::optimize::fold_program(prog)) {
            Ok(f) => f,
            Err(p) => { rep.violation(&["C10", "C11"], &format!("folder panicked: {p}"), &small, J::Null, J::Null); continue; }
        };
        let fexpr = match &folded.statements[0].node { Stmt::Expr(e) => e.clone(), _ => unreachable!() };
        let fgot = catch(|| eval_expr_with_functions(&fexpr, &ev, SequenceContext::empty(), &fns, &binds)).unwrap_or(None);
        let conf_fold = same(&fgot, &c["fval"]);
        if !conf_fold { rep.count("model_fold_mismatch", 1); }
        if !values_same(&fgot, &got) {
            // the folded program computes something else than the unfolded expression
            if conf_eval && conf_fold {
                rep.known(&["C10"], "C10-identity-rewrites", "identity rewrites (x*0, x*1, x+0, x-0, x/1) drop the operand's type/absence");
            } else {
                rep.violation(&["C10"], "folding changes the value in a way the transcribed folder does not predict", &small, json!(show(&got)), json!(show(&fgot)));
            }
        } else if c["val"] != c["fval"] && conf_eval {
            rep.drift(&["C10"], "model predicts a folding difference that the code does not show", &small);
        }
        // ---------- 4. C09: .where vs sequence step ----------
        let w = got.as_ref().and_then(|v| v.as_bool()).unwrap_or(false);
        if c["isf"].as_bool().unwrap() {
            rep.count("filter_cases", 1);
            let pred = expr_to_sase_predicate(&expr);
            let pat = SasePattern::Seq(vec![
                SasePattern::Event { event_type: "A".into(), predicate: None, alias: Some("a".into()) },
                SasePattern::Event { event_type: "B".into(), predicate: pred, alias: Some("b".into()) },
            ]);
            let st = catch(|| {
                let mut eng = SaseEngine::new(pat);
                eng.process(&Event::new("A"));
                !eng.process(&ev).is_empty()
            });
            match st {
                Err(p) => rep.violation(&["C09", "C11", "C05"], &format!("pattern step panicked: {p}"), &small, J::Null, J::Null),
                Ok(st) => {
                    let mw = c["w"].as_bool().unwrap();
                    let ms = c["st"].as_bool().unwrap();
                    if st != w {
                        if mw == w && ms == st {
                            rep.known(&["C09"], "C09-where-vs-step-semantics", "stream filter and pattern-step filter use different comparison semantics");
                        } else {
                            rep.violation(&["C09"], "filter accepts differently in .where and as a sequence step, beyond the recorded finding", &small, json!({"where": w}), json!({"step": st}));
                        }
                    } else if mw != ms {
                        rep.drift(&["C09"], "model predicts a where/step difference that the code does not show", &small);
                    }
                }
            }
        }
        // ---------- 5. engine level through VPL text (contexts .where / .emit / sequence step; parse() folds) ----------
        if ci % every == 0 {
            if let Some(src) = render(&c["e"]) {
                rep.count("engine_cases", 1);
                let vpl = format!("stream S = B\n    .emit(r: {src})\n");
                match engine_outputs(&cx, &vpl, vec![ev.clone()]) {
                    Err(e) if e.starts_with("panic") => rep.violation(&["C11"], &format!("engine {e}"), &json!({"vpl": vpl, "env": c["env"]}), J::Null, J::Null),
                    Err(_) => rep.count("engine_rejected", 1),
                    Ok(outs) => {
                        let r = outs.first().and_then(|o| o.data.get("r").cloned());
                        let r = match r { Some(Value::Null) if got.is_none() => None, x => x };
                        if !values_same(&r, &got) {
                            // parse() folded the expression: same classification as above
                            if values_same(&r, &fgot) && conf_eval && conf_fold {
                                rep.known(&["C10"], "C10-identity-rewrites", "identity rewrites (x*0, x*1, x+0, x-0, x/1) drop the operand's type/absence");
                            } else if values_same(&r, &fgot) {
                                rep.violation(&["C10"], "engine (folded program) emits a different value than the unfolded expression", &json!({"vpl": vpl, "env": c["env"]}), json!(show(&got)), json!(show(&r)));
                            } else {
                                rep.count("engine_emit_differs_from_evaluator", 1);
                                if c["numcmp"].as_bool().unwrap() {
                                    rep.violation(&["C08"], "comparison in .emit disagrees with the mathematical order", &json!({"vpl": vpl, "env": c["env"]}), json!(c["math"]), json!(show(&r)));
                                }
                            }
                        }
                    }
                }
                if c["numcmp"].as_bool().unwrap() {
                    let want = c["math"].as_bool().unwrap();
                    let vpl = format!("stream S = B\n    .where({src})\n    .emit(ok: 1)\n");
                    match engine_outputs(&cx, &vpl, vec![ev.clone()]) {
                        Err(e) => rep.violation(&["C08", "C11"], &format!("engine failed: {e}"), &json!({"vpl": vpl}), J::Null, J::Null),
                        Ok(outs) => if (outs.len() == 1) != want {
                            rep.violation(&["C08"], "comparison in .where disagrees with the mathematical order", &json!({"vpl": vpl, "env": c["env"]}), json!(want), json!(outs.len()));
                        },
                    }
                    let vpl = format!("stream S = A as a\n    -> B where {src} as b\n    .emit(ok: 1)\n");
                    match engine_outputs(&cx, &vpl, vec![Event::new("A"), ev.clone()]) {
                        Err(e) => rep.violation(&["C08", "C11"], &format!("engine failed: {e}"), &json!({"vpl": vpl}), J::Null, J::Null),
                        Ok(outs) => if (outs.len() == 1) != want {
                            rep.violation(&["C08"], "comparison as a sequence-step filter disagrees with the mathematical order", &json!({"vpl": vpl, "env": c["env"]}), json!(want), json!(outs.len()));
                        },
                    }
                }
            }
        }
    }
    rep.write(&args[1]);
}

// ---------------------------------------------------------------------------------------------
// C08 at the edges: spec/expr/CmpEdge.tla (symbolic constants with exact ranks)
// ---------------------------------------------------------------------------------------------
fn edge_value(name: &str) -> Value {
    match name {
        "NINF" => Value::Float(f64::NEG_INFINITY),
        "NEGTINY" => Value::Float(-1e-17),
        "ZERO_I" => Value::Int(0),
        "ZERO_F" => Value::Float(0.0),
        "TINY" => Value::Float(1e-17),
        "TINY2" => Value::Float(2e-17),
        "P3" => Value::Float(0.3),
        "P3B" => Value::Float(0.1 + 0.2),
        "ONE_I" => Value::Int(1),
        "ONE_F" => Value::Float(1.0),
        "BIG_I" => Value::Int(1 << 53),
        "BIG_F" => Value::Float((1u64 << 53) as f64),
        "BIG1_I" => Value::Int((1 << 53) + 1),
        "MAX_I" => Value::Int(i64::MAX),
        "INF" => Value::Float(f64::INFINITY),
        n => panic!("edge constant {n}"),
    }
}

fn edge_literal(v: &Value) -> Option<String> {
    match v {
        Value::Int(n) if *n >= 0 => Some(format!("{n}")),
        Value::Float(f) if f.is_finite() && *f >= 0.0 => Some(if *f == 0.0 { "0.0".into() } else if *f < 1e-3 { format!("{:.20}", f) } else { format!("{:?}", f) }),
        _ => None,
    }
}

/// args: cases.ndjson report.json
pub fn cmp_edge(args: &[String]) {
    let cases = read_cases(&args[0]);
    let mut rep = Report::new();
    let fns = FxHashMap::default();
    let binds: FxHashMap<String, Value> = FxHashMap::default();
    let cx = Ctx { rt: tokio::runtime::Builder::new_current_thread().enable_all().build().unwrap() };
    for c in &cases {
        let (an, bn) = (c["a"].as_str().unwrap(), c["b"].as_str().unwrap());
        let (av, bv) = (edge_value(an), edge_value(bn));
        let opn = c["op"].as_str().unwrap();
        let op = binop(opn);
        let sym = match opn { "lt" => "<", "le" => "<=", "gt" => ">", _ => ">=" };
        let want = c["math"].as_bool().unwrap();
        let small = json!({"a": an, "op": opn, "b": bn});
        rep.case(&small, true);
        // values above 2^53 lose precision when an i64 is converted to f64 for a mixed comparison
        let big_mixed = c["mixed"].as_bool().unwrap() && [an, bn].iter().any(|n| *n == "BIG1_I" || *n == "MAX_I") && [an, bn].iter().any(|n| *n == "BIG_F" || *n == "INF" || *n == "NINF" || *n == "BIG_I");
        let precision_case = c["mixed"].as_bool().unwrap() && ((an == "BIG1_I" && bn == "BIG_F") || (an == "BIG_F" && bn == "BIG1_I"));
        let _ = big_mixed;
        let mut verdict = |ctx: &str, got: Option<bool>, rep: &mut Report| {
            if got == Some(want) { return; }
            if precision_case && got.is_some() {
                rep.known(&["C08"], "C08-i64-to-f64-precision", "mixed comparison converts the i64 to f64: 2^53+1 compares equal to 2^53 as a float");
            } else if ctx == "eval_binary_op" && got.is_none() && c["mixed"].as_bool().unwrap() && (opn == "le" || opn == "ge") {
                rep.known(&["C08"], "C08-pattern-expr-mixed-le-ge", "eval_binary_op has no Int/Float arms for <= and >=");
            } else {
                rep.violation(&["C08"], &format!("comparison disagrees with the mathematical order ({ctx})"), &small, json!(want), json!(got));
            }
        };
        // 1. evaluator on fields
        let ev = Event::new("B").with_field("x", av.clone()).with_field("y", bv.clone());
        let e = Expr::Binary { op: op.clone(), left: Box::new(Expr::Ident("x".into())), right: Box::new(Expr::Ident("y".into())) };
        let g = catch(|| eval_expr_with_functions(&e, &ev, SequenceContext::empty(), &fns, &binds)).unwrap_or(None);
        verdict("evaluator", g.and_then(|v| v.as_bool()), &mut rep);
        let g2 = catch(|| eval_binary_op(&op, &av, &bv)).unwrap_or(None);
        verdict("eval_binary_op", g2.and_then(|v| v.as_bool()), &mut rep);
        // 2. engine: .where on two fields
        let vpl = format!("stream S = B\n    .where(x {sym} y)\n    .emit(ok: 1)\n");
        match engine_outputs(&cx, &vpl, vec![ev.clone()]) {
            Ok(o) => verdict(".where", Some(o.len() == 1), &mut rep),
            Err(e) => rep.violation(&["C08", "C11"], &format!("engine failed: {e}"), &small, J::Null, J::Null),
        }
        // 3. sequence step against a captured event (Predicate::CompareRef -> compare_values)
        let vpl = format!("stream S = A as a\n    -> B where x {sym} a.x as b\n    .emit(ok: 1)\n");
        let ea = Event::new("A").with_field("x", bv.clone());
        let eb = Event::new("B").with_field("x", av.clone());
        match engine_outputs(&cx, &vpl, vec![ea, eb.clone()]) {
            Ok(o) => verdict("sequence step vs captured event", Some(o.len() == 1), &mut rep),
            Err(e) => rep.violation(&["C08", "C11"], &format!("engine failed: {e}"), &small, J::Null, J::Null),
        }
        // 4. sequence step / .where against a literal (Predicate::Compare), where the right operand has a source form
        if let Some(lit) = edge_literal(&bv) {
            let vpl = format!("stream S = A as a\n    -> B where x {sym} {lit} as b\n    .emit(ok: 1)\n");
            match engine_outputs(&cx, &vpl, vec![Event::new("A"), eb.clone()]) {
                Ok(o) => verdict("sequence step vs literal", Some(o.len() == 1), &mut rep),
                Err(e) => { rep.count("edge_literal_rejected", 1); let _ = e; }
            }
            let vpl = format!("stream S = B\n    .where(x {sym} {lit})\n    .emit(ok: 1)\n");
            match engine_outputs(&cx, &vpl, vec![eb]) {
                Ok(o) => verdict(".where vs literal", Some(o.len() == 1), &mut rep),
                Err(_) => rep.count("edge_literal_rejected", 1),
            }
        }
    }
    rep.write(&args[1]);
}

// ---------------------------------------------------------------------------------------------
// C11: totality corpus spec/expr/ExprTot.tla
// ---------------------------------------------------------------------------------------------
fn tot_value(name: &str) -> Option<Value> {
    use std::sync::Arc;
    let arr = |v: Vec<Value>| Value::Array(Box::new(v));
    Some(match name {
        "MIN" => Value::Int(i64::MIN), "MINP1" => Value::Int(i64::MIN + 1), "NEG1" => Value::Int(-1), "ZERO" => Value::Int(0),
        "ONE" => Value::Int(1), "TWO" => Value::Int(2), "SIXTYFOUR" => Value::Int(64), "MAX" => Value::Int(i64::MAX),
        "NAN" => Value::Float(f64::NAN), "INF" => Value::Float(f64::INFINITY), "NINF" => Value::Float(f64::NEG_INFINITY),
        "NEGZERO" => Value::Float(-0.0), "F15" => Value::Float(1.5), "FBIG" => Value::Float(1e308), "FNEG" => Value::Float(-2.5),
        "EMPTYSTR" => Value::Str("".into()), "ABC" => Value::Str("abc".into()), "UNI" => Value::Str("h\u{e9}llo\u{20ac}\u{1f600}".into()),
        "NUMSTR" => Value::Str("9223372036854775808".into()),
        "TRUE" => Value::Bool(true), "FALSE" => Value::Bool(false), "NULL" => Value::Null,
        "EMPTYARR" => arr(vec![]), "ARR12" => arr(vec![Value::Int(1), Value::Int(2)]),
        "ARRNEST" => arr(vec![arr(vec![Value::Int(i64::MAX), Value::Int(i64::MAX)]), arr(vec![])]),
        "ARRMIX" => arr(vec![Value::Int(i64::MAX), Value::Float(f64::NAN), Value::Str("x".into()), Value::Null, Value::Int(i64::MAX)]),
        "EMPTYMAP" => Value::Map(Box::new(Default::default())),
        "MAP1" => { let mut m: indexmap::IndexMap<Arc<str>, Value, _> = varpulis_core::value::FxIndexMap::default(); m.insert("a".into(), Value::Int(i64::MAX)); m.insert("b".into(), arr(vec![Value::Null])); Value::Map(Box::new(m)) }
        "TS" => Value::Timestamp(i64::MAX), "DUR" => Value::Duration(u64::MAX),
        "MISSING" | "NONE" => return None,
        n => panic!("leaf {n}"),
    })
}

fn tot_source(k: &str, op: &str, arity: usize) -> Option<String> {
    let a = ["x", "y", "z"];
    Some(match k {
        "bin" => {
            let s = match op { "add" => "+", "sub" => "-", "mul" => "*", "div" => "/", "mod" => "%", "pow" => "**", "lt" => "<", "le" => "<=", "gt" => ">", "ge" => ">=",
                "eq" => "==", "ne" => "!=", "and" => "and", "or" => "or", "xor" => "xor", "in" => "in", "notin" => "not in", _ => return None };
            format!("(x {s} y)")
        }
        "un" => match op { "neg" => "(-x)".into(), "not" => "(not x)".into(), "bitnot" => "(~x)".into(), _ => return None },
        "call" => format!("{op}({})", a[..arity].join(", ")),
        _ => return None,
    })
}

fn tot_expr(k: &str, op: &str, arity: usize) -> Expr {
    use varpulis_core::ast::Arg;
    let id = |n: &str| Expr::Ident(n.into());
    match k {
        "bin" => Expr::Binary {
            op: match op { "pow" => BinOp::Pow, "xor" => BinOp::Xor, "in" => BinOp::In, "notin" => BinOp::NotIn, o => binop(o) },
            left: Box::new(id("x")), right: Box::new(id("y")) },
        "un" => Expr::Unary { op: match op { "neg" => UnaryOp::Neg, "not" => UnaryOp::Not, _ => UnaryOp::BitNot }, expr: Box::new(id("x")) },
        _ => Expr::Call { func: Box::new(id(op)), args: ["x", "y", "z"][..arity].iter().map(|n| Arg::Positional(id(n))).collect() },
    }
}

/// args: cases.ndjson report.json
pub fn total(args: &[String]) {
    use std::collections::BTreeMap;
    let cases = read_cases(&args[0]);
    let mut rep = Report::new();
    let fns = FxHashMap::default();
    let binds: FxHashMap<String, Value> = FxHashMap::default();
    let cx = Ctx { rt: tokio::runtime::Builder::new_current_thread().enable_all().build().unwrap() };
    // group by expression shape so that one Engine serves all operand tuples of that shape
    let mut groups: BTreeMap<(String, String, usize), Vec<&J>> = BTreeMap::new();
    for c in &cases {
        let arity = if c["z"] != "NONE" { 3 } else if c["y"] != "NONE" { 2 } else { 1 };
        groups.entry((c["k"].as_str().unwrap().into(), c["op"].as_str().unwrap().into(), arity)).or_default().push(c);
    }
    for ((k, op, arity), cs) in &groups {
        let expr = tot_expr(k, op, *arity);
        let src = tot_source(k, op, *arity);
        let mk_engine = |src: &str| -> Option<(varpulis_runtime::engine::Engine, tokio::sync::mpsc::Receiver<Event>)> {
            let vpl = format!("stream W = B\n    .where({src})\n    .emit(ok: 1)\nstream E = B\n    .emit(r: {src})\n");
            let program = varpulis_parser::parse(&vpl).ok()?;
            let (tx, rx) = tokio::sync::mpsc::channel::<Event>(100000);
            let mut engine = varpulis_runtime::engine::Engine::new(tx);
            engine.load(&program).ok()?;
            Some((engine, rx))
        };
        let mut eng = src.as_ref().and_then(|s| mk_engine(s));
        if src.is_some() && eng.is_none() { rep.count("shapes_not_loadable_as_vpl", 1); }
        for c in cs {
            let mut ev = Event::new("B");
            for (f, key) in [("x", "x"), ("y", "y"), ("z", "z")] {
                if let Some(v) = tot_value(c[key].as_str().unwrap()) { ev = ev.with_field(f, v); }
            }
            let small = json!({"expr": src.clone().unwrap_or_else(|| format!("{k}:{op}")), "x": c["x"], "y": c["y"], "z": c["z"]});
            let r = catch(|| eval_expr_with_functions(&expr, &ev, SequenceContext::empty(), &fns, &binds));
            rep.case(&small, matches!(r, Ok(Some(_))));
            if c["ovf"].as_bool().unwrap() { rep.count("overflow_cases", 1); }
            if let Err(p) = &r {
                rep.violation(&["C11"], &format!("evaluator panicked: {p}"), &small, json!("a value or no value"), json!("panic"));
            }
            if let Some((engine, rx)) = eng.as_mut() {
                rep.count("engine_events", 1);
                let pr = catch(|| cx.rt.block_on(engine.process(ev.clone())));
                while rx.try_recv().is_ok() {}
                if let Err(p) = pr {
                    if r.is_ok() {
                        rep.violation(&["C11"], &format!("engine (.where/.emit) panicked: {p}"), &small, json!("a value or no value"), json!("panic"));
                    }
                    eng = src.as_ref().and_then(|s| mk_engine(s)); // the engine may be poisoned by the unwind
                }
            }
        }
    }
    rep.write(&args[1]);
}
