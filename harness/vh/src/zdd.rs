//! Binding of spec/zdd/Zdd.tla to varpulis-zdd: the standalone `Zdd` and the shared `ZddArena`.
use crate::util::*;
use serde_json::{json, Value as J};
use std::collections::{BTreeMap, BTreeSet};
use varpulis_zdd::{Zdd, ZddArena, ZddHandle, ZddRef};

type Fam = BTreeSet<Vec<u32>>;
fn fam(j: &J) -> Fam {
    j.as_array().map(|a| a.iter().map(|s| s.as_array().map(|x| x.iter().map(|x| x.as_u64().unwrap() as u32).collect()).unwrap_or_default()).collect()).unwrap_or_default()
}
fn fj(f: &Fam) -> J {
    json!(f.iter().collect::<Vec<_>>())
}

fn build_arena(ar: &mut ZddArena, f: &Fam, alt: bool) -> ZddHandle {
    let mut h = ar.empty();
    let sets: Vec<&Vec<u32>> = if alt { f.iter().rev().collect() } else { f.iter().collect() };
    for (n, s) in sets.into_iter().enumerate() {
        // from_set takes a slice, not a set: in the alternative build the same set is spelled with a repeated element, ascending or descending
        let spelled: Vec<u32> = if !alt || s.is_empty() { s.clone() } else {
            let mut v = s.clone();
            match n % 3 { 0 => { v.insert(0, s[0]); v } 1 => { v.push(*s.last().unwrap()); v.reverse(); v } _ => { v.insert(v.len() / 2, s[v.len() / 2]); v } }
        };
        let x = ar.from_set(&spelled);
        h = ar.union(h, x);
    }
    h
}
fn build_zdd(f: &Fam) -> Zdd {
    let mut z = Zdd::empty();
    for s in f {
        z = z.union(&Zdd::from_set(s));
    }
    z
}
/// (family read back through iteration, number of yielded sets, well-formed: each ascending and yielded once)
fn read_arena(ar: &ZddArena, h: ZddHandle) -> (Fam, usize, bool) {
    let v: Vec<Vec<u32>> = ar.iter(h).collect();
    let sorted_each = v.iter().all(|s| s.windows(2).all(|w| w[0] < w[1]));
    let set: Fam = v.iter().cloned().collect();
    let n = v.len();
    let wf = sorted_each && set.len() == n;
    (set, n, wf)
}

/// C07: every stored node reduced (hi != Empty) and ordered (var < var of node children).
fn check_nodes(ar: &ZddArena) -> Option<String> {
    let nodes = ar.verif_nodes();
    let vars: BTreeMap<u32, u32> = nodes.iter().map(|(id, var, _, _)| (*id, *var)).collect();
    for (id, var, lo, hi) in &nodes {
        if *hi == ZddRef::Empty {
            return Some(format!("node {id} (var {var}) has an empty include-branch"));
        }
        for c in [lo, hi] {
            if let Some(cid) = c.node_id() {
                match vars.get(&cid) {
                    None => return Some(format!("node {id} points to missing node {cid}")),
                    Some(cv) if *cv <= *var => return Some(format!("node {id} (var {var}) has child {cid} with var {cv}")),
                    _ => {}
                }
            }
        }
    }
    // uniqueness of (var, lo, hi)
    let mut seen = BTreeSet::new();
    for (id, var, lo, hi) in &nodes {
        if !seen.insert((*var, format!("{lo:?}"), format!("{hi:?}"))) {
            return Some(format!("duplicate node {id} (var {var})"));
        }
    }
    None
}

const PROBES: [&[u32]; 8] = [&[], &[1], &[2], &[3], &[1, 2], &[2, 3], &[1, 3], &[1, 2, 3]];

/// args: cases.ndjson report.json   (pair cases: every (a, b) with the reference results)
pub fn pairs(args: &[String]) {
    let cases = read_cases(&args[0]);
    let mut rep = Report::new();
    for c in &cases {
        let (a, b) = (fam(&c["a"]), fam(&c["b"]));
        let small = json!({"a": fj(&a), "b": fj(&b)});
        rep.case(&small, !a.is_empty() && !b.is_empty());
        let r = catch(|| {
            let mut v: Vec<(Vec<&'static str>, String, J, J)> = vec![];
            let mut ar = ZddArena::new();
            let ha = build_arena(&mut ar, &a, false);
            let hb = build_arena(&mut ar, &b, false);
            let ha2 = build_arena(&mut ar, &a, true);
            if ha != ha2 {
                v.push((vec!["C07"], "same family built in two insertion orders has two roots".into(), fj(&a), J::Null));
            }
            for (name, key) in [("union", "u"), ("intersection", "i"), ("difference", "d")] {
                let h = match name { "union" => ar.union(ha, hb), "intersection" => ar.intersection(ha, hb), _ => ar.difference(ha, hb) };
                let (got, cnt, wf) = read_arena(&ar, h);
                let exp = fam(&c[key]);
                if got != exp { v.push((vec!["C06"], format!("arena {name} wrong"), fj(&exp), fj(&got))); }
                if !wf { v.push((vec!["C07", "C06"], format!("arena iteration of {name} result not ascending / repeats a set"), J::Null, J::Null)); }
                let n1 = ar.count(h);
                if n1 != exp.len() || ar.count_uncached(h) != exp.len() { v.push((vec!["C06"], format!("arena count of {name} result wrong"), json!(exp.len()), json!([n1, cnt]))); }
                let hexp = build_arena(&mut ar, &exp, false);
                if got == exp && hexp != h { v.push((vec!["C07"], format!("arena {name} result is not the canonical root of its family"), J::Null, J::Null)); }
                for s in PROBES { if ar.contains(h, s) != exp.contains(s) { v.push((vec!["C06"], format!("arena contains({s:?}) wrong on {name} result"), json!(exp.contains(s)), J::Null)); } }
            }
            for vv in 1..=3u32 {
                let h = ar.product_with_optional(ha, vv);
                let (got, _, wf) = read_arena(&ar, h);
                let exp = fam(&c["o"][(vv - 1) as usize]);
                if got != exp { v.push((vec!["C06"], format!("arena product_with_optional({vv}) wrong"), fj(&exp), fj(&got))); }
                if !wf { v.push((vec!["C07"], "iteration not well-formed after product_with_optional".into(), J::Null, J::Null)); }
                let hexp = build_arena(&mut ar, &exp, true);
                if got == exp && hexp != h { v.push((vec!["C07"], "product_with_optional result is not canonical".into(), J::Null, J::Null)); }
            }
            if let Some(e) = check_nodes(&ar) { v.push((vec!["C07"], e, J::Null, J::Null)); }
            let na = ar.count(ha);
            let (_st, hs) = ar.gc(&[ha, hb]);
            if hs.len() != 2 || read_arena(&ar, hs[0]).0 != a || read_arena(&ar, hs[1]).0 != b { v.push((vec!["C07"], "gc changed a live family".into(), J::Null, J::Null)); }
            else {
                if ar.count(hs[0]) != a.len() || ar.count(hs[1]) != b.len() || na != a.len() { v.push((vec!["C06"], "count wrong after gc".into(), json!([a.len(), b.len()]), J::Null)); }
                let u_after = ar.union(hs[0], hs[1]);
                if read_arena(&ar, u_after).0 != fam(&c["u"]) { v.push((vec!["C06", "C07"], "union wrong after gc".into(), J::Null, J::Null)); }
                let d_after = ar.difference(hs[0], hs[1]);
                if read_arena(&ar, d_after).0 != fam(&c["d"]) { v.push((vec!["C06", "C07"], "difference wrong after gc".into(), J::Null, J::Null)); }
                if let Some(e) = check_nodes(&ar) { v.push((vec!["C07"], format!("after gc: {e}"), J::Null, J::Null)); }
            }
            // standalone form
            let (za, zb) = (build_zdd(&a), build_zdd(&b));
            for (name, key) in [("union", "u"), ("intersection", "i"), ("difference", "d"), ("product", "p")] {
                let z = match name { "union" => za.union(&zb), "intersection" => za.intersection(&zb), "difference" => za.difference(&zb), _ => za.product(&zb) };
                let it: Vec<Vec<u32>> = z.iter().collect();
                let got: Fam = it.iter().cloned().collect();
                let exp = fam(&c[key]);
                if got != exp { v.push((vec!["C06"], format!("standalone {name} wrong"), fj(&exp), fj(&got))); }
                if it.len() != got.len() || !it.iter().all(|s| s.windows(2).all(|w| w[0] < w[1])) { v.push((vec!["C07", "C06"], format!("standalone iteration of {name} result malformed"), J::Null, J::Null)); }
                if z.count() != exp.len() { v.push((vec!["C06"], format!("standalone count of {name} wrong"), json!(exp.len()), json!(z.count()))); }
                for s in PROBES { if z.contains(s) != exp.contains(s) { v.push((vec!["C06"], format!("standalone contains({s:?}) wrong on {name}"), J::Null, J::Null)); } }
            }
            for vv in 1..=3u32 {
                let got: Fam = za.product_with_optional(vv).iter().collect();
                if got != fam(&c["o"][(vv - 1) as usize]) { v.push((vec!["C06"], format!("standalone product_with_optional({vv}) wrong"), J::Null, fj(&got))); }
            }
            v
        });
        match r {
            Err(p) => rep.violation(&["C06", "C07"], &format!("panic: {p}"), &small, J::Null, J::Null),
            Ok(vs) => for (props, what, e, g) in vs { rep.violation(&props, &what, &small, e, g); },
        }
    }
    rep.write(&args[1]);
}

/// args: cases.ndjson report.json   (register-machine histories on ONE arena: build / op / opt / count / gc)
pub fn machine(args: &[String]) {
    let cases = read_cases(&args[0]);
    let mut rep = Report::new();
    for c in &cases {
        let hist = c["hist"].as_array().unwrap();
        let has_gc = hist.iter().any(|h| h["op"] == "gc");
        rep.case(&json!({"hist": hist}), has_gc);
        let r = catch(|| {
            let mut v: Vec<(Vec<&'static str>, String, J, J)> = vec![];
            let mut ar = ZddArena::new();
            let mut regs: BTreeMap<u64, (ZddHandle, Fam)> = BTreeMap::new();
            for (i, h) in hist.iter().enumerate() {
                let op = h["op"].as_str().unwrap();
                match op {
                    "build" => { let f = fam(&h["fam"]); let hd = build_arena(&mut ar, &f, i % 2 == 0); regs.insert(h["r"].as_u64().unwrap(), (hd, f)); }
                    "union" | "inter" | "diff" => {
                        let (x, y) = (regs[&h["x"].as_u64().unwrap()].0, regs[&h["y"].as_u64().unwrap()].0);
                        let hd = match op { "union" => ar.union(x, y), "inter" => ar.intersection(x, y), _ => ar.difference(x, y) };
                        regs.insert(h["r"].as_u64().unwrap(), (hd, fam(&h["fam"])));
                    }
                    "opt" => { let x = regs[&h["x"].as_u64().unwrap()].0; let hd = ar.product_with_optional(x, h["v"].as_u64().unwrap() as u32); regs.insert(h["r"].as_u64().unwrap(), (hd, fam(&h["fam"]))); }
                    "count" => { let x = regs[&h["x"].as_u64().unwrap()].0; let n = ar.count(x); if n as u64 != h["n"].as_u64().unwrap() { v.push((vec!["C06"], format!("step {i}: count wrong"), h["n"].clone(), json!(n))); } }
                    "gc" => {
                        let keep: Vec<u64> = h["keep"].as_array().unwrap().iter().map(|x| x.as_u64().unwrap()).collect();
                        let hs: Vec<ZddHandle> = keep.iter().map(|k| regs[k].0).collect();
                        let (_st, nh) = ar.gc(&hs);
                        if nh.len() != hs.len() { v.push((vec!["C07"], format!("step {i}: gc returned {} handles for {}", nh.len(), hs.len()), J::Null, J::Null)); break; }
                        let mut nr = BTreeMap::new();
                        for (k, hd) in keep.iter().zip(nh) { nr.insert(*k, (hd, regs[k].1.clone())); }
                        regs = nr;
                    }
                    o => panic!("op {o}"),
                }
                // after every step: every live register denotes its reference family (iter, count, contains), equal
                // families share a root, and the node table is reduced and ordered
                for (k, (hd, f)) in &regs {
                    let (got, n, wf) = read_arena(&ar, *hd);
                    if &got != f { v.push((vec![if op == "gc" { "C07" } else { "C06" }], format!("step {i} ({op}): register {k} denotes a wrong family"), fj(f), fj(&got))); }
                    if !wf { v.push((vec!["C07"], format!("step {i}: iteration of register {k} malformed"), J::Null, J::Null)); }
                    if n != f.len() || ar.count_uncached(*hd) != f.len() { v.push((vec!["C06"], format!("step {i}: uncached count of register {k} wrong"), J::Null, J::Null)); }
                    for s in PROBES { if ar.contains(*hd, s) != f.contains(s) { v.push((vec!["C06"], format!("step {i}: contains({s:?}) wrong on register {k}"), J::Null, J::Null)); } }
                }
                let ks: Vec<&u64> = regs.keys().collect();
                for a in 0..ks.len() { for b in a + 1..ks.len() {
                    let (ha, fa) = &regs[ks[a]]; let (hb, fb) = &regs[ks[b]];
                    if (fa == fb) != (ha == hb) { v.push((vec!["C07"], format!("step {i}: registers {} and {}: same family {} but same root {}", ks[a], ks[b], fa == fb, ha == hb), J::Null, J::Null)); }
                } }
                if let Some(e) = check_nodes(&ar) { v.push((vec!["C07"], format!("step {i}: {e}"), J::Null, J::Null)); }
                if v.len() > 3 { break; }
            }
            // cached counts at the end (the count cache must have followed every gc)
            for (k, (hd, f)) in &regs {
                let n = ar.count(*hd);
                if n != f.len() { v.push((vec!["C06"], format!("end: cached count of register {k} wrong"), json!(f.len()), json!(n))); }
            }
            v
        });
        match r {
            Err(p) => rep.violation(&["C06", "C07"], &format!("panic: {p}"), &json!({"hist": hist}), J::Null, J::Null),
            Ok(vs) => for (props, what, e, g) in vs { rep.violation(&props, &what, &json!({"hist": hist}), e, g); },
        }
    }
    rep.write(&args[1]);
}
