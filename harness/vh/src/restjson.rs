//! C44: spec/restjson/RestJson.tla terms through the real REST inject / inject-batch routes (warp::test on api_routes).
use crate::util::*;
use serde_json::{json, Value as J};
use varpulis_runtime::tenant::{shared_tenant_manager, TenantQuota};

fn leaf_text(l: &str) -> &'static str {
    match l {
        "i0" => "0", "i1" => "1", "im1" => "-1", "i2p53" => "9007199254740992", "i2p53p1" => "9007199254740993", "im2p53m1" => "-9007199254740993",
        "i64max" => "9223372036854775807", "i64min" => "-9223372036854775808", "i64maxm1" => "9223372036854775806",
        "u2p63" => "9223372036854775808", "u2p63p1" => "9223372036854775809", "u64max" => "18446744073709551615",
        "f05" => "0.5", "fm0" => "-0.0", "f1" => "1.0", "f1e300" => "1e300", "fmin" => "5e-324", "f2p53p2" => "9007199254740994.0", "fm25" => "-2.5", "f01" => "0.1", "fpi" => "3.141592653589793",
        "f2p63" => "9223372036854775808.0", "f2p64" => "18446744073709551616.0",
        "sempty" => "\"\"", "sa" => "\"a\"", "suni" => "\"\u{fc}n\u{ef}\u{2014}\u{65e5}\u{672c}\u{1f600}\"", "squote" => "\"say \\\"hi\\\" \\\\ back/\"", "snum" => "\"123\"", "snul" => "\"nul\\u0000in\\n\"",
        "null" => "null", "true" => "true", "false" => "false",
        l => panic!("leaf {l}"),
    }
}
/// JSON text of a symbolic term
fn text(t: &J) -> String {
    match t["k"].as_str().unwrap() {
        "leaf" => leaf_text(t["l"].as_str().unwrap()).to_string(),
        "arr" => format!("[{}]", t["e"].as_array().map(|a| a.iter().map(text).collect::<Vec<_>>().join(",")).unwrap_or_default()),
        "obj" => format!("{{{}}}", t["m"].as_object().map(|m| m.iter().map(|(k, v)| format!("\"{k}\":{}", text(v))).collect::<Vec<_>>().join(",")).unwrap_or_default()),
        "tower" => {
            let (d, sh) = (t["d"].as_u64().unwrap(), t["sh"].as_str().unwrap());
            let mut s = leaf_text(t["l"].as_str().unwrap()).to_string();
            for lvl in 1..=d {
                let arr = sh == "arr" || (sh == "alt" && lvl % 2 == 0);
                s = if arr { format!("[{s}]") } else { format!("{{\"a\":{s}}}") };
            }
            s
        }
        k => panic!("kind {k}"),
    }
}
fn top_tag(t: &J) -> &'static str {
    match t["k"].as_str().unwrap() {
        "arr" => "array", "obj" => "map",
        "tower" => { let (d, sh) = (t["d"].as_u64().unwrap(), t["sh"].as_str().unwrap()); if sh == "arr" || (sh == "alt" && d % 2 == 0) { "array" } else { "map" } }
        _ => { let l = t["l"].as_str().unwrap(); match l.as_bytes()[0] { b'i' | b'u' => "int", b'f' if l != "false" => "float", b's' => "string", b'n' => "null", _ => "bool" } }
    }
}
/// strict JSON equality: integers by value, floats by bits (so -0.0 != 0.0 and 2^63 as integer != 2^63 as float)
fn jeq(a: &J, b: &J) -> bool {
    match (a, b) {
        (J::Number(x), J::Number(y)) => {
            if x.is_f64() != y.is_f64() { return false; }
            if x.is_f64() { x.as_f64().unwrap().to_bits() == y.as_f64().unwrap().to_bits() } else { x.to_string() == y.to_string() }
        }
        (J::Array(x), J::Array(y)) => x.len() == y.len() && x.iter().zip(y).all(|(p, q)| jeq(p, q)),
        (J::Object(x), J::Object(y)) => x.len() == y.len() && x.iter().all(|(k, v)| y.get(k).is_some_and(|w| jeq(v, w))),
        _ => a == b,
    }
}

const TYPED: &str = "stream Out = In\n    .emit(v: v, t: type_of(v), w: w)\n";
const PASS: &str = "stream Out = In\n    .emit(v: v, w: [v])\n";   // the pipeline builds the array itself

/// args: cases.ndjson report.json
pub fn replay(args: &[String]) {
    let cases = read_cases(&args[0]);
    let mut rep = Report::new();
    let rt = tokio::runtime::Builder::new_current_thread().enable_all().build().unwrap();
    let res = catch(|| rt.block_on(async {
        let mgr = shared_tenant_manager();
        let (typed, pass) = {
            let mut m = mgr.write().await;
            let id = m.create_tenant("t".into(), "key-json-1".into(), TenantQuota::enterprise()).map_err(|e| format!("tenant: {e}"))?;
            let a = m.deploy_pipeline_on_tenant(&id, "typed".into(), TYPED.into()).await.map_err(|e| format!("deploy: {e}"))?;
            let b = m.deploy_pipeline_on_tenant(&id, "pass".into(), PASS.into()).await.map_err(|e| format!("deploy: {e}"))?;
            (a, b)
        };
        let routes = varpulis_cli::api::api_routes(mgr.clone(), None);
        for c in &cases {
            let term = &c["term"];
            let jt = text(term);
            let ideal: J = serde_json::from_str(&jt).map_err(|e| format!("harness text {jt}: {e}"))?;
            let faithful: J = serde_json::from_str(&text(&c["out"])).unwrap();
            let big = c["big"].as_bool().unwrap();
            let small = json!({"value": jt, "term": term});
            rep.case(&small, true);
            // every route x pipeline: (name, path, body text, extractor of (v, t) from the response)
            let single = |pid: &str| (format!("/api/v1/pipelines/{pid}/events"), format!("{{\"event_type\":\"In\",\"fields\":{{\"v\":{jt},\"w\":[{jt}]}}}}"));
            let batch = |pid: &str| (format!("/api/v1/pipelines/{pid}/events-batch"), format!("{{\"events\":[{{\"event_type\":\"In\",\"fields\":{{\"v\":{jt},\"w\":[{jt}]}}}},{{\"event_type\":\"In\",\"fields\":{{\"v\":1,\"w\":{jt}}}}}]}}"));
            for (route, pname, (path, body)) in [("inject", "typed", single(&typed)), ("inject", "nest", single(&pass)), ("batch", "typed", batch(&typed))] {
                let resp = warp::test::request().method("POST").path(&path).header("x-api-key", "key-json-1").header("content-type", "application/json").body(body.clone()).reply(&routes).await;
                let status = resp.status().as_u16();
                let rj: J = serde_json::from_slice(resp.body()).unwrap_or(J::Null);
                // observed (v, w-wrapped, type tag) of the first output event
                let ev = if route == "inject" { rj["output_events"][0]["fields"].clone() } else { rj["output_events"][0].clone() };
                let n = rj["output_events"].as_array().map(|a| a.len()).unwrap_or(0);
                let want_n = if route == "inject" { 1 } else { 2 };
                let mut problems = vec![];
                let mut faithful_like = true;
                if status != 200 || n != want_n { problems.push(format!("status {status}, {n} output events (want 200, {want_n}): {}", String::from_utf8_lossy(resp.body()).chars().take(200).collect::<String>())); faithful_like = false; }
                else {
                    if !jeq(&ev["v"], &ideal) { problems.push(format!("v came back as {}", ev["v"])); faithful_like &= jeq(&ev["v"], &faithful); }
                    if !jeq(&ev["w"], &json!([ideal.clone()])) { problems.push(format!("[v] came back as {}", ev["w"])); faithful_like &= jeq(&ev["w"], &json!([faithful.clone()])); }
                    if pname == "typed" {
                        let t = ev["t"].as_str().unwrap_or("?");
                        if t != top_tag(term) { problems.push(format!("pipeline saw type {t}, JSON type is {}", top_tag(term))); faithful_like &= t == c["tag"].as_str().unwrap(); }
                    }
                    if route == "batch" {
                        let ev2 = &rj["output_events"][1];
                        if !jeq(&ev2["w"], &ideal) { problems.push(format!("second batch event: w came back as {}", ev2["w"])); faithful_like &= jeq(&ev2["w"], &faithful); }
                        if ev["event_type"] != json!("Out") { problems.push(format!("batch output event_type {}", ev["event_type"])); faithful_like = false; }
                    }
                }
                rep.count(&format!("{route}_{pname}"), 1);
                if !problems.is_empty() {
                    if big && faithful_like { rep.known(&["C44"], "C44-integer-above-i64-max-becomes-float", &format!("{route}/{pname}")); }
                    else { rep.violation(&["C44"], "a JSON value changed type or content through the REST API", &json!({"value": jt, "route": route, "pipeline": pname, "body": body}), json!({"v": ideal, "type": top_tag(term)}), json!(problems)); }
                }
            }
        }
        Ok::<_, String>(())
    }));
    match res { Ok(Ok(())) => {} Ok(Err(e)) => panic!("harness: {e}"), Err(p) => rep.violation(&["C44"], "panic in the API", &json!({}), json!("no panic"), json!(p)) }
    rep.write(&args[1]);
}
