//! Binding of spec/window/Window.tla to the real window structs and to engine-level window programs.
use crate::util::*;
use chrono::{DateTime, Duration, TimeZone, Utc};
use serde_json::{json, Value as J};
use std::sync::Arc;
use varpulis_core::Value;
use varpulis_runtime::event::{Event, SharedEvent};
use varpulis_runtime::persistence::{SerializableValue, WindowCheckpoint};
use varpulis_runtime::window::*;

enum W {
    T(TumblingWindow),
    C(CountWindow),
    S(SessionWindow),
    Sl(SlidingWindow),
    Sc(SlidingCountWindow),
}

fn ids(v: &[SharedEvent]) -> Vec<i64> {
    v.iter().map(|e| match e.get("id") { Some(Value::Int(n)) => *n, _ => -1 }).collect()
}

fn cp_ids(cp: &WindowCheckpoint) -> Vec<i64> {
    cp.events.iter().map(|e| match e.fields.get("id") { Some(SerializableValue::Int(n)) => *n, _ => -1 }).collect()
}

fn t0() -> DateTime<Utc> {
    Utc.timestamp_opt(3_000_000, 0).unwrap()
}

/// length of one model time unit: 1 s by default; VERIF_WIN_UNIT_US sets it in microseconds (e.g. 700 = 0.7 ms, so that window bounds and
/// event times carry sub-millisecond parts and any comparison done at millisecond resolution shows)
fn unit_us() -> i64 { std::env::var("VERIF_WIN_UNIT_US").ok().and_then(|s| s.parse().ok()).unwrap_or(1_000_000) }
fn units(n: i64) -> Duration { Duration::microseconds(n * unit_us()) }
fn vpl_dur(n: i64) -> String { if unit_us() == 1_000_000 { format!("{n}s") } else { format!("{}us", n * unit_us()) } }

fn mk(cfg: &J) -> W {
    let d = cfg["d"].as_i64().unwrap();
    let s = cfg["s"].as_i64().unwrap();
    match cfg["kind"].as_str().unwrap() {
        "tumbling" => W::T(TumblingWindow::new(units(d))),
        "count" => W::C(CountWindow::new(d as usize)),
        "session" => W::S(SessionWindow::new(units(d))),
        "sliding" => W::Sl(SlidingWindow::new(units(d), units(s))),
        "slidingcount" => W::Sc(SlidingCountWindow::new(d as usize, s as usize)),
        k => panic!("kind {k}"),
    }
}

/// Run ops on the real struct; returns trace records (one per op) with emitted window ids and the buffer.
fn run_struct(cfg: &J, ops: &[J]) -> Vec<J> {
    let mut w = mk(cfg);
    let mut n = 0i64;
    let mut out = vec![json!({"ev": "reset", "cfg": cfg})];
    for op in ops {
        let t = t0() + units(op["t"].as_i64().unwrap());
        let r: Option<Vec<SharedEvent>> = if op["op"] == "add" {
            n += 1;
            let mut e = Event::new("A").with_field("id", n);
            e.timestamp = t;
            let e = Arc::new(e);
            match &mut w {
                W::T(x) => x.add_shared(e),
                W::C(x) => x.add_shared(e),
                W::S(x) => x.add_shared(e),
                W::Sl(x) => x.add_shared(e),
                W::Sc(x) => x.add_shared(e),
            }
        } else {
            match &mut w {
                W::T(x) => x.advance_watermark(t),
                W::S(x) => x.advance_watermark(t),
                _ => None,
            }
        };
        let buf = match &w {
            W::T(x) => cp_ids(&x.checkpoint()),
            W::C(x) => cp_ids(&x.checkpoint()),
            W::S(x) => cp_ids(&x.checkpoint()),
            W::Sl(x) => cp_ids(&x.checkpoint()),
            W::Sc(x) => cp_ids(&x.checkpoint()),
        };
        let emit: Vec<Vec<i64>> = r.map(|v| vec![ids(&v)]).unwrap_or_default();
        out.push(json!({"ev": "op", "op": op["op"], "t": op["t"], "emit": emit, "buf": buf}));
    }
    out
}

fn vpl_window(cfg: &J, part: bool) -> String {
    let d = cfg["d"].as_i64().unwrap();
    let s = cfg["s"].as_i64().unwrap();
    let w = match cfg["kind"].as_str().unwrap() {
        "tumbling" => format!(".window({})", vpl_dur(d)),
        "count" => format!(".window({d})"),
        "session" => format!(".window(session: {})", vpl_dur(d)),
        "sliding" => format!(".window({}, sliding: {})", vpl_dur(d), vpl_dur(s)),
        "slidingcount" => format!(".window({d}, sliding: {s})"),
        k => panic!("kind {k}"),
    };
    format!(
        "stream W = A\n{}    {}\n    .aggregate(n: count(), s: sum(id), f: first(id), l: last(id))\n    .emit(n: n, s: s, f: f, l: l)\n",
        if part { "    .partition_by(key)\n" } else { "" },
        w
    )
}

fn summary(win: &[i64], off: i64) -> (i64, i64, i64, i64) {
    let v: Vec<i64> = win.iter().map(|x| x + off).collect();
    (v.len() as i64, v.iter().sum(), v[0], v[v.len() - 1])
}

fn num(v: Option<&Value>) -> i64 {
    match v {
        Some(Value::Int(n)) => *n,
        Some(Value::Float(f)) => *f as i64,
        _ => -1,
    }
}

/// Engine-level: the same arrivals through VPL -> Engine; per emitted aggregate (n, sum(id), first(id), last(id)).
/// `streams` = one (key, ops) per partition, interleaved round-robin.  Returns per key the sequence of summaries.
fn run_engine(rt: &tokio::runtime::Runtime, cfg: &J, streams: &[(&str, &[J], i64)], part: bool) -> Result<Vec<Vec<(i64, i64, i64, i64)>>, String> {
    use tokio::sync::mpsc;
    let vpl = vpl_window(cfg, part);
    let program = varpulis_parser::parse(&vpl).map_err(|e| format!("parse: {e}\n{vpl}"))?;
    let (tx, mut rx) = mpsc::channel::<Event>(100000);
    let mut engine = varpulis_runtime::engine::Engine::new(tx);
    engine.load(&program).map_err(|e| format!("load: {e}\n{vpl}"))?;
    let mut out: Vec<Vec<(i64, i64, i64, i64)>> = streams.iter().map(|_| vec![]).collect();
    let maxlen = streams.iter().map(|s| s.1.len()).max().unwrap_or(0);
    let mut counters: Vec<i64> = streams.iter().map(|_| 0).collect();
    for i in 0..maxlen {
        for (si, (key, ops, off)) in streams.iter().enumerate() {
            if i >= ops.len() || ops[i]["op"] != "add" {
                continue;
            }
            counters[si] += 1;
            let mut e = Event::new("A").with_field("id", counters[si] + off).with_field("key", *key);
            e.timestamp = t0() + units(ops[i]["t"].as_i64().unwrap());
            match catch(|| rt.block_on(engine.process(e))) {
                Ok(Ok(())) => {}
                Ok(Err(e)) => return Err(format!("process: {e}")),
                Err(p) => return Err(format!("panic: {p}")),
            }
            while let Ok(o) = rx.try_recv() {
                let f = num(o.data.get("f"));
                // attribute the output to the stream whose id range contains first(id)
                let owner = streams.iter().position(|(_, _, off)| f > *off && f <= *off + 1000).unwrap_or(si);
                out[owner].push((num(o.data.get("n")), num(o.data.get("s")), f, num(o.data.get("l"))));
            }
        }
    }
    Ok(out)
}

/// args: cases.ndjson report.json trace_out.ndjson
pub fn replay(args: &[String]) {
    let cases = read_cases(&args[0]);
    let mut rep = Report::new();
    let mut traces: Vec<J> = vec![];
    let rt = tokio::runtime::Builder::new_current_thread().enable_all().build().unwrap();
    for (ci, case) in cases.iter().enumerate() {
        let cfg = &case["cfg"];
        let ops = case["ops"].as_array().unwrap();
        let blk = run_struct(cfg, ops);
        let emitted = blk.iter().any(|r| r["emit"].as_array().map(|a| !a.is_empty()).unwrap_or(false));
        rep.case(&json!({"cfg": cfg, "ops": ops}), emitted);
        rep.count(&format!("kind_{}", cfg["kind"].as_str().unwrap()), 1);
        traces.extend(blk);
        // engine level (arrival-only cases): plain, and partitioned together with the next case of the same cfg
        let addonly = ops.iter().all(|o| o["op"] == "add");
        if addonly {
            let exp: Vec<(i64, i64, i64, i64)> = case["closed"].as_array().unwrap().iter()
                .map(|w| summary(&w.as_array().unwrap().iter().map(|x| x.as_i64().unwrap()).collect::<Vec<_>>(), 0)).collect();
            rep.count("engine_plain", 1);
            match run_engine(&rt, cfg, &[("k1", ops.as_slice(), 0)], false) {
                Err(e) => rep.violation(&["C12", "C13"], &format!("engine failed on window program: {e}"), &json!({"cfg": cfg}), J::Null, J::Null),
                Ok(got) => {
                    if got[0] != exp {
                        // recorded as an engine-level trace block; TLC decides which invariant (if any) it breaks
                        traces.extend(engine_block(cfg, ops, &got[0], 0));
                        rep.count("engine_plain_mismatch", 1);
                    }
                }
            }
            // partitioned: pair with another add-only case of the same configuration
            if let Some(other) = cases[ci + 1..].iter().take(40).find(|c| c["cfg"] == *cfg && c["ops"].as_array().unwrap().iter().all(|o| o["op"] == "add")) {
                let ops2 = other["ops"].as_array().unwrap();
                let exp2: Vec<(i64, i64, i64, i64)> = other["closed"].as_array().unwrap().iter()
                    .map(|w| summary(&w.as_array().unwrap().iter().map(|x| x.as_i64().unwrap()).collect::<Vec<_>>(), 1000)).collect();
                rep.count("engine_partitioned", 1);
                match run_engine(&rt, cfg, &[("k1", ops.as_slice(), 0), ("k2", ops2.as_slice(), 1000)], true) {
                    Err(e) => rep.violation(&["C12", "C13", "C04"], &format!("engine failed on partitioned window program: {e}"), &json!({"cfg": cfg}), J::Null, J::Null),
                    Ok(got) => {
                        if got[0] != exp {
                            traces.extend(engine_block(cfg, ops, &got[0], 0));
                            rep.count("engine_part_mismatch", 1);
                        }
                        if got[1] != exp2 {
                            traces.extend(engine_block(cfg, ops2, &got[1], 1000));
                            rep.count("engine_part_mismatch", 1);
                        }
                    }
                }
            }
        }
    }
    write_ndjson(&args[2], &traces);
    rep.write(&args[1]);
}

/// An engine-level observation cannot show window contents directly; (n, sum, first, last) of consecutive ids
/// determines a contiguous id range, which is what every window kind emits.  Non-contiguous summaries are
/// rendered as the (wrong) window [first, last] so that TLC rejects them.
fn engine_block(cfg: &J, ops: &[J], got: &[(i64, i64, i64, i64)], off: i64) -> Vec<J> {
    let mut v = vec![json!({"ev": "reset", "cfg": cfg, "engine": true})];
    // emissions are attached to the arrival whose id equals last(id)
    let mut n = 0i64;
    for op in ops {
        n += 1;
        let mut emit: Vec<Vec<i64>> = vec![];
        for (cnt, sum, f, l) in got {
            let (f0, l0) = (f - off, l - off);
            let contiguous = *cnt == l0 - f0 + 1 && *sum == (f + l) * cnt / 2;
            // tumbling/session windows are emitted by the arrival AFTER their last element
            let trigger = match cfg["kind"].as_str().unwrap() { "tumbling" | "session" => l0 + 1, _ => l0 };
            let last_op = n as usize == ops.len();
            if trigger == n || (last_op && (trigger > n || trigger < 1)) {
                emit.push(if contiguous { (f0..=l0).collect() } else { vec![f0, l0] });
            }
        }
        v.push(json!({"ev": "op", "op": "add", "t": op["t"], "emit": emit, "buf": [], "nobuf": true}));
    }
    v
}

/// args: report.json trace_out.ndjson nblocks maxlen — seeded random driver on the real structs (longer than TLC's bound)
pub fn record(args: &[String]) {
    let nblocks: usize = args[2].parse().unwrap();
    let maxlen: u64 = args[3].parse().unwrap();
    let mut rng = Rng::new(seed_from_env() ^ 0x717d);
    let mut rep = Report::new();
    let mut traces = vec![];
    for b in 0..nblocks {
        let kind = ["tumbling", "count", "session", "sliding", "slidingcount"][b % 5];
        let inorder = kind == "sliding" || kind == "slidingcount" || kind == "count" || rng.chance(2, 3);
        let wm = kind == "tumbling" || kind == "session";
        let cfg = json!({"kind": kind, "d": 1 + rng.below(5), "s": 1 + rng.below(5), "inorder": inorder, "wm": wm});
        let len = 5 + rng.below(maxlen - 4);
        let mut ops = vec![];
        let mut last = 0i64;
        let mut lastwm = 0i64;
        for _ in 0..len {
            if wm && rng.chance(1, 5) {
                let w = if inorder { last.max(lastwm) + rng.below(4) as i64 } else { rng.below(40) as i64 };
                lastwm = lastwm.max(w);
                ops.push(json!({"op": "wm", "t": w}));
            } else {
                let t = if inorder { last.max(lastwm) + rng.below(4) as i64 } else { (last + rng.below(7) as i64 - 2).max(0) };
                last = if inorder { t } else { last.max(t) };
                ops.push(json!({"op": "add", "t": t}));
            }
        }
        let blk = run_struct(&cfg, &ops);
        let emitted = blk.iter().any(|r| r["emit"].as_array().map(|a| !a.is_empty()).unwrap_or(false));
        rep.case(&json!({"cfg": cfg, "ops": ops}), emitted);
        traces.extend(blk);
    }
    write_ndjson(&args[1], &traces);
    rep.write(&args[0]);
}
