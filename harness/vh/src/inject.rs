//! C34: spec/coordinator/InjectRouting.tla route tables on a real Coordinator; single injections resolved through
//! resolve_inject_target, batch injections observed at a loopback mock worker.
use crate::util::*;
use serde_json::{json, Value as J};
use std::collections::BTreeMap;
use std::sync::{Arc, Mutex};
use varpulis_cluster::coordinator::{Coordinator, DeployResponse, DeployTaskResult, InjectBatchRequest, InjectEventRequest};
use varpulis_cluster::pipeline_group::{InterPipelineRoute, PipelineGroupSpec, PipelinePlacement};
use varpulis_cluster::worker::{WorkerId, WorkerNode};
use warp::Filter;

type Received = Arc<Mutex<Vec<(String, String, J)>>>; // (pipeline id, event type, fields)

const TYPES: [&str; 4] = ["Order", "OrderCancelled", "Pay", "Other"];
fn key_field(k: &str) -> Option<J> { match k { "k1" => Some(json!("k1")), "k2" => Some(json!("k2")), "i1" => Some(json!(1)), "f1" => Some(json!(1.5)), _ => None } }
fn key_evt(k: &str) -> String { match k { "k1" => ", key: \"k1\"".into(), "k2" => ", key: \"k2\"".into(), "i1" => ", key: 1".into(), "f1" => ", key: 1.5".into(), _ => String::new() } }

async fn case(c: &J, port: u16, received: &Received, rep: &mut Report) {
    let strat = c["strat"].as_str().unwrap();
    let small = json!({"routes": c["routes"], "strategy": strat});
    let mut coord = Coordinator::new();
    coord.register_worker(WorkerNode::new(WorkerId("w1".into()), format!("http://127.0.0.1:{port}"), "key".into()));
    let routes: Vec<InterPipelineRoute> = c["routes"].as_array().map(|a| a.iter().map(|r| InterPipelineRoute {
        from_pipeline: "_external".into(), to_pipeline: r["to"].as_str().unwrap().into(),
        event_types: r["pats"].as_array().unwrap().iter().map(|p| p.as_str().unwrap().to_string()).collect(), nats_subject: None }).collect()).unwrap_or_default();
    let spec = PipelineGroupSpec { name: "g".into(), routes,
        pipelines: vec![
            PipelinePlacement { name: "p1".into(), source: "stream S1 = X".into(), worker_affinity: None, replicas: 3, partition_key: if strat == "hash" { Some("key".into()) } else { None } },
            PipelinePlacement { name: "p2".into(), source: "stream S2 = X".into(), worker_affinity: None, replicas: 2, partition_key: if strat == "hash" { Some("key".into()) } else { None } },
        ] };
    let plan = match coord.plan_deploy_group(&spec) { Ok(p) => p, Err(e) => { rep.violation(&["C34"], &format!("plan failed: {e}"), &small, J::Null, J::Null); return; } };
    let results = plan.tasks.iter().map(|t| DeployTaskResult { replica_name: t.replica_name.clone(), pipeline_name: t.pipeline_name.clone(), worker_id: t.worker_id.clone(),
        worker_address: t.worker_address.clone(), worker_api_key: t.worker_api_key.clone(), replica_count: t.replica_count,
        outcome: Ok(DeployResponse { id: format!("pid-{}", t.replica_name.replace('#', "_r")), name: t.replica_name.clone(), status: "running".into() }) }).collect();
    let gid = coord.commit_deploy_group(plan, results).unwrap();
    let keys = ["k1", "k2", "i1", "f1", "none"];
    // ---- single injections: every (type, key), twice ----
    let mut single: BTreeMap<(String, String), Vec<String>> = BTreeMap::new();   // (type, key) -> replica names
    let mut loads_single: BTreeMap<String, BTreeMap<String, usize>> = BTreeMap::new();
    for round in 0..2 {
        for ty in TYPES { for k in keys {
            let mut fields = serde_json::Map::new();
            fields.insert("n".into(), json!(round));
            if let Some(v) = key_field(k) { fields.insert("key".into(), v); }
            match coord.resolve_inject_target(&gid, &InjectEventRequest { event_type: ty.into(), fields }) {
                Ok(t) => {
                    let pipe = t.target_name.split('#').next().unwrap().to_string();
                    let want = c["target"][ty].as_str().unwrap();
                    if pipe != want { rep.violation(&["C34"], "single injection goes to another pipeline than the first matching route", &json!({"routes": c["routes"], "type": ty}), json!(want), json!(t.target_name)); }
                    single.entry((ty.to_string(), k.to_string())).or_default().push(t.target_name.clone());
                    *loads_single.entry(pipe).or_default().entry(t.target_name).or_insert(0) += 1;
                }
                Err(e) => rep.violation(&["C34"], &format!("single injection failed: {e}"), &small, J::Null, J::Null),
            }
        } }
    }
    // ---- one batch with the same events ----
    received.lock().unwrap().clear();
    let mut text = String::new();
    for round in 0..2 { for ty in TYPES { for k in keys { text.push_str(&format!("{ty} {{ n: {round}{} }}\n", key_evt(k))); } } }
    match coord.inject_batch(&gid, InjectBatchRequest { events_text: text }).await {
        Err(e) => rep.violation(&["C34"], &format!("batch injection failed: {e}"), &small, J::Null, J::Null),
        Ok(resp) => {
            if resp.events_failed > 0 { rep.violation(&["C34"], "batch injection reported failed events", &small, J::Null, json!(resp.errors)); }
            let got = received.lock().unwrap().clone();
            let mut batch: BTreeMap<(String, String), Vec<String>> = BTreeMap::new();
            let mut loads_batch: BTreeMap<String, BTreeMap<String, usize>> = BTreeMap::new();
            for (pid, ty, fields) in &got {
                let replica = pid.trim_start_matches("pid-").replace("_r", "#");
                let pipe = replica.split('#').next().unwrap().to_string();
                let want = c["target"][ty.as_str()].as_str().unwrap_or("?");
                if pipe != want { rep.violation(&["C34"], "batch injection goes to another pipeline than the first matching route", &json!({"routes": c["routes"], "type": ty}), json!(want), json!(replica)); }
                let k = match &fields["key"] { J::String(s) => s.clone(), J::Number(n) if n.is_i64() => "i1".into(), J::Number(_) => "f1".into(), _ => "none".into() };
                batch.entry((ty.clone(), k)).or_default().push(replica.clone());
                *loads_batch.entry(pipe).or_default().entry(replica).or_insert(0) += 1;
            }
            if got.len() != 40 { rep.violation(&["C34"], "batch injection delivered another number of events than injected", &small, json!(40), json!(got.len())); }
            if strat == "hash" {
                // sticky: one replica per (pipeline, key), the same for single and batch injection
                let mut per_key: BTreeMap<(String, String), std::collections::BTreeSet<String>> = BTreeMap::new();
                for ((ty, k), reps) in single.iter().chain(batch.iter()) {
                    let pipe = c["target"][ty.as_str()].as_str().unwrap().to_string();
                    for r in reps { per_key.entry((pipe.clone(), k.clone())).or_default().insert(r.clone()); }
                }
                for ((pipe, k), reps) in per_key { if reps.len() > 1 { rep.violation(&["C34"], "events with the same key value reach different replicas (single vs batch or within a run)", &json!({"routes": c["routes"], "pipeline": pipe, "key": k}), json!("one replica"), json!(reps)); } }
            } else {
                for (what, loads) in [("single", &loads_single), ("batch", &loads_batch)] {
                    for (pipe, m) in loads {
                        let nrep = if pipe == "p1" { 3 } else { 2 };
                        let max = m.values().max().copied().unwrap_or(0);
                        let min = if m.len() < nrep { 0 } else { m.values().min().copied().unwrap_or(0) };
                        if max - min > 1 { rep.violation(&["C34"], &format!("round-robin replica loads differ by more than one ({what} injection)"), &json!({"routes": c["routes"], "pipeline": pipe}), json!("<= 1"), json!(m)); }
                    }
                }
            }
        }
    }
    rep.case(&small, true);
}

/// args: cases.ndjson report.json
pub fn replay(args: &[String]) {
    let cases = read_cases(&args[0]);
    let mut rep = Report::new();
    let rt = tokio::runtime::Builder::new_multi_thread().worker_threads(2).enable_all().build().unwrap();
    rt.block_on(async {
        let received: Received = Arc::new(Mutex::new(Vec::new()));
        let st = received.clone();
        let batch = warp::path!("api" / "v1" / "pipelines" / String / "events-batch").and(warp::post()).and(warp::body::json::<J>())
            .map(move |pid: String, body: J| {
                let events = body["events"].as_array().cloned().unwrap_or_default();
                let pid = pid.replace("%23", "#");
                let mut g = st.lock().unwrap();
                for e in &events { g.push((pid.clone(), e["event_type"].as_str().unwrap_or("").to_string(), e["fields"].clone())); }
                warp::reply::json(&json!({"accepted": events.len(), "output_events": []}))
            });
        let (addr, fut) = warp::serve(batch).bind_ephemeral(([127, 0, 0, 1], 0));
        tokio::spawn(fut);
        tokio::time::sleep(std::time::Duration::from_millis(50)).await;
        for c in &cases { case(c, addr.port(), &received, &mut rep).await; }
    });
    rep.write(&args[1]);
}
