//! C21: real FileStore + CheckpointManager under a store wrapper that kills the "process" at a chosen file-system step.
//! Schedules come from spec/checkpoint/CkptGen.tla; recorded observations are validated by CkptTrace.tla.
use crate::util::*;
use serde_json::{json, Value as J};
use std::sync::atomic::{AtomicBool, Ordering};
use std::sync::{Arc, Mutex};
use varpulis_runtime::persistence::{Checkpoint, CheckpointConfig, CheckpointManager, FileStore, StateStore, StoreError};

/// Delegates to a real FileStore; when armed, "crashes" at the planned step: the step's partial effect is left on disk
/// exactly as FileStore::put / prune would have left it, every later call fails (the process is gone).
struct CrashStore {
    inner: FileStore,
    dir: std::path::PathBuf,
    plan: Mutex<String>,          // phase at which the NEXT save crashes ("none" = never)
    dead: AtomicBool,
    log: Mutex<Vec<J>>,
}
impl CrashStore {
    fn down(&self) -> StoreError { self.dead.store(true, Ordering::SeqCst); StoreError::IoError("process crashed (harness)".into()) }
    fn is_dead(&self) -> Result<(), StoreError> { if self.dead.load(Ordering::SeqCst) { Err(StoreError::IoError("process is down".into())) } else { Ok(()) } }
}
impl StateStore for CrashStore {
    fn save_checkpoint(&self, cp: &Checkpoint) -> Result<(), StoreError> {
        self.is_dead()?;
        let ph = self.plan.lock().unwrap().clone();
        let path = self.dir.join("checkpoint").join(cp.id.to_string());
        match ph.as_str() {
            "before" => return Err(self.down()),
            "tmp_partial" | "tmp_full" => {
                // what FileStore::put leaves when the process dies after (part of) the temp-file write
                std::fs::create_dir_all(path.parent().unwrap()).unwrap();
                let data = varpulis_runtime::codec::serialize(cp, varpulis_runtime::codec::CheckpointFormat::active()).map_err(|e| StoreError::IoError(e.to_string()))?;
                let n = if ph == "tmp_partial" { data.len() / 2 } else { data.len() };
                std::fs::write(path.with_extension("tmp"), &data[..n]).unwrap();
                return Err(self.down());
            }
            _ => {}
        }
        self.inner.save_checkpoint(cp)?;
        self.log.lock().unwrap().push(json!({"ev": "stored", "id": cp.id}));
        if ph == "renamed" { return Err(self.down()); }
        Ok(())
    }
    fn load_latest_checkpoint(&self) -> Result<Option<Checkpoint>, StoreError> { self.is_dead()?; self.inner.load_latest_checkpoint() }
    fn load_checkpoint(&self, id: u64) -> Result<Option<Checkpoint>, StoreError> { self.is_dead()?; self.inner.load_checkpoint(id) }
    fn list_checkpoints(&self) -> Result<Vec<u64>, StoreError> { self.is_dead()?; self.inner.list_checkpoints() }
    fn prune_checkpoints(&self, keep: usize) -> Result<usize, StoreError> {
        self.is_dead()?;
        let ph = self.plan.lock().unwrap().clone();
        if ph == "prune1" || ph == "prune2" {
            // the prune loop dies after j deletions (the real delete is used for each)
            let j = if ph == "prune1" { 1 } else { 2 };
            let ids = self.inner.list_checkpoints()?;
            let to_delete = ids.len().saturating_sub(keep);
            for id in ids.iter().take(to_delete.min(j)) { self.inner.delete(&format!("checkpoint:{}", id))?; }
            return Err(self.down());
        }
        self.inner.prune_checkpoints(keep)
    }
    fn put(&self, k: &str, v: &[u8]) -> Result<(), StoreError> { self.is_dead()?; self.inner.put(k, v) }
    fn get(&self, k: &str) -> Result<Option<Vec<u8>>, StoreError> { self.is_dead()?; self.inner.get(k) }
    fn delete(&self, k: &str) -> Result<(), StoreError> { self.is_dead()?; self.inner.delete(k) }
    fn flush(&self) -> Result<(), StoreError> { self.is_dead()?; self.inner.flush() }
}

fn listing(dir: &std::path::Path) -> Vec<u64> {
    let mut v: Vec<u64> = std::fs::read_dir(dir.join("checkpoint")).map(|rd| rd.filter_map(|e| e.ok()).filter_map(|e| e.file_name().to_str().and_then(|n| n.parse::<u64>().ok())).collect()).unwrap_or_default();
    v.sort();
    v
}
fn blank(n: u64) -> Checkpoint {
    Checkpoint { id: 0, timestamp_ms: 0, events_processed: n, window_states: Default::default(), pattern_states: Default::default(), metadata: Default::default(), context_states: Default::default() }
}

/// a checkpoint whose serialised form is several kB long: the attempt that crashes is bigger than every later checkpoint, so whatever
/// it leaves behind (a temp file) is longer than what is written over it
fn big(n: u64) -> Checkpoint {
    let mut c = blank(n);
    c.metadata.insert("pad".into(), "x".repeat(6000));
    c
}

fn run_case(c: &J) -> Vec<J> {
    let keep = c["keep"].as_u64().unwrap() as usize;
    let n = c["n"].as_u64().unwrap();
    let ph = c["ph"].as_str().unwrap();
    let dir = tempfile::tempdir().unwrap();
    let mut out = vec![json!({"ev": "reset", "keep": keep, "case": c})];
    let store = Arc::new(CrashStore { inner: FileStore::open(dir.path()).unwrap(), dir: dir.path().to_path_buf(), plan: Mutex::new("none".into()), dead: AtomicBool::new(false), log: Mutex::new(vec![]) });
    let cfg = |k: usize| CheckpointConfig { max_checkpoints: k, ..Default::default() };
    let mut mgr = match CheckpointManager::new(store.clone(), cfg(keep)) { Ok(m) => m, Err(e) => { out.push(json!({"ev": "toolerr", "msg": e.to_string()})); return out; } };
    let mut next = 1u64;
    for i in 0..n {
        let r = mgr.checkpoint(blank(i));
        out.extend(store.log.lock().unwrap().drain(..));
        if r.is_ok() { out.push(json!({"ev": "ack", "id": next, "files": listing(dir.path())})); next += 1; }
    }
    if ph != "none" {
        if ph == "acked" {
            let r = mgr.checkpoint(blank(n));
            out.extend(store.log.lock().unwrap().drain(..));
            if r.is_ok() { out.push(json!({"ev": "ack", "id": next, "files": listing(dir.path())})); }
        } else {
            *store.plan.lock().unwrap() = ph.to_string();
            let r = mgr.checkpoint(big(n));
            out.extend(store.log.lock().unwrap().drain(..));
            if r.is_ok() { out.push(json!({"ev": "ack", "id": next, "files": listing(dir.path())})); }
        }
        store.dead.store(true, Ordering::SeqCst);
        out.push(json!({"ev": "crash", "files": listing(dir.path())}));
    } else {
        out.push(json!({"ev": "crash", "files": listing(dir.path())}));
    }
    drop(mgr);
    if c["corrupt"].as_bool().unwrap() {
        if let Some(id) = listing(dir.path()).last() {
            std::fs::write(dir.path().join("checkpoint").join(id.to_string()), b"{trunc").unwrap();
            out.push(json!({"ev": "corrupt", "id": id}));
        }
    }
    // restart: fresh store and manager on the same directory
    let store2: Arc<dyn StateStore> = Arc::new(FileStore::open(dir.path()).unwrap());
    match CheckpointManager::new(store2.clone(), cfg(keep)) {
        Err(_) => out.push(json!({"ev": "restart", "ok": false, "recovered": 0, "files": listing(dir.path())})),
        Ok(mut m2) => {
            match m2.recover() {
                Ok(cp) => out.push(json!({"ev": "restart", "ok": true, "recovered": cp.map(|c| c.id).unwrap_or(0), "files": listing(dir.path())})),
                Err(_) => out.push(json!({"ev": "restart", "ok": false, "recovered": 0, "files": listing(dir.path())})),
            }
            let before = listing(dir.path());
            if m2.checkpoint(blank(99)).is_ok() {
                let after = listing(dir.path());
                if let Some(id) = after.iter().find(|i| !before.contains(i)).or(after.last()) {
                    out.push(json!({"ev": "newid", "id": id}));
                    // that checkpoint was written completely and acknowledged: a second restart must recover exactly it
                    out.push(json!({"ev": "stored", "id": id}));
                    out.push(json!({"ev": "ack", "id": id, "files": after}));
                    drop(m2);
                    out.push(json!({"ev": "crash", "files": listing(dir.path())}));
                    let store3: Arc<dyn StateStore> = Arc::new(FileStore::open(dir.path()).unwrap());
                    match CheckpointManager::new(store3.clone(), cfg(keep)).and_then(|m3| m3.recover()) {
                        Ok(cp) => out.push(json!({"ev": "restart", "ok": true, "recovered": cp.map(|c| c.id).unwrap_or(0), "files": listing(dir.path())})),
                        Err(_) => out.push(json!({"ev": "restart", "ok": false, "recovered": 0, "files": listing(dir.path())})),
                    }
                }
            }
        }
    }
    out
}

/// args: cases.ndjson report.json trace.ndjson
pub fn replay(args: &[String]) {
    let cases = read_cases(&args[0]);
    let mut rep = Report::new();
    let mut traces = vec![];
    for c in &cases {
        match catch(|| run_case(c)) {
            Ok(b) => { rep.case(c, c["ph"] != "none" || c["corrupt"] == true); traces.extend(b); }
            Err(p) => { rep.case(c, true); rep.violation(&["C21"], &format!("checkpoint store panicked: {p}"), c, J::Null, J::Null); }
        }
    }
    write_ndjson(&args[2], &traces);
    rep.write(&args[1]);
}
