//! Binding of spec/sase/Sase.tla to the real pattern matcher.
//!  * `sase-replay`: TLC-generated (program, stream, model outputs, model run statistics) cases are
//!    run through `SaseEngine` (direct API) and, where the program is expressible in VPL, through
//!    parse -> Engine::load -> Engine::process.  Every case also yields a recorded trace block.
//!  * `sase-record`: a seeded random driver at sizes TLC cannot enumerate; only records traces.
//! Traces are validated by TLC against spec/sase/SaseTrace.tla (conformance + all invariants).
use crate::util::*;
use serde_json::{json, Value as J};
use std::collections::BTreeMap;
use varpulis_core::Value;
use varpulis_runtime::event::Event;
use varpulis_runtime::sase::{BackpressureStrategy, CompareOp, Predicate, SaseEngine, SasePattern};

fn build(prog: &J) -> SaseEngine {
    let steps = prog["steps"].as_array().unwrap();
    let mut pats = vec![];
    for (i, st) in steps.iter().enumerate() {
        let alias = format!("s{}", i + 1);
        let pred = match st["f"].as_str().unwrap() {
            "none" => None,
            "ge1" => Some(Predicate::Compare { field: "x".into(), op: CompareOp::Ge, value: Value::Int(1) }),
            "eqprev" => Some(Predicate::CompareRef { field: "x".into(), op: CompareOp::Eq, ref_alias: format!("s{}", i), ref_field: "x".into() }),
            "gtself" => Some(Predicate::CompareRef { field: "x".into(), op: CompareOp::Gt, ref_alias: alias.clone(), ref_field: "x".into() }),
            "gtself_leprev" => Some(Predicate::And(
                Box::new(Predicate::CompareRef { field: "x".into(), op: CompareOp::Gt, ref_alias: alias.clone(), ref_field: "x".into() }),
                Box::new(Predicate::CompareRef { field: "x".into(), op: CompareOp::Le, ref_alias: format!("s{}", i), ref_field: "x".into() }))),
            f => panic!("unknown filter {f}"),
        };
        let ev = SasePattern::Event { event_type: st["type"].as_str().unwrap().into(), predicate: pred, alias: Some(alias) };
        pats.push(if st["all"].as_bool().unwrap() { SasePattern::KleenePlus(Box::new(ev)) } else { ev });
    }
    let mut e = SaseEngine::new(SasePattern::Seq(pats))
        .with_max_runs(prog["maxRuns"].as_u64().unwrap() as usize)
        .with_max_kleene_events(prog["maxK"].as_u64().unwrap() as u32)
        .with_max_enumeration_results(prog["maxEnum"].as_u64().unwrap() as usize)
        .with_backpressure(match prog["strat"].as_str().unwrap() {
            "drop" => BackpressureStrategy::Drop,
            "oldest" => BackpressureStrategy::EvictOldest,
            _ => BackpressureStrategy::EvictLeastProgress,
        });
    if prog["part"].as_bool().unwrap() {
        e = e.with_partition_by("key".into());
    }
    for c in prog["negs"].as_array().unwrap() {
        let pred = match c["f"].as_str().unwrap() {
            "none" => None,
            "ge1" => Some(Predicate::Compare { field: "x".into(), op: CompareOp::Ge, value: Value::Int(1) }),
            "eqfirst" => Some(Predicate::CompareRef { field: "x".into(), op: CompareOp::Eq, ref_alias: "s1".into(), ref_field: "x".into() }),
            f => panic!("unknown negation filter {f}"),
        };
        e = e.with_negation(c["type"].as_str().unwrap().into(), pred);
    }
    e
}

fn relevant(prog: &J, ty: &str) -> bool {
    prog["steps"].as_array().unwrap().iter().any(|s| s["type"] == ty) || prog["negs"].as_array().unwrap().iter().any(|s| s["type"] == ty)
}

fn mk_event(i: usize, e: &J) -> Event {
    Event::new(e["type"].as_str().unwrap())
        .with_field("id", (i + 1) as i64)
        .with_field("key", e["key"].as_str().unwrap())
        .with_field("x", e["x"].as_i64().unwrap())
}

fn id_of(ev: &Event) -> i64 {
    match ev.get("id") {
        Some(Value::Int(n)) => *n,
        _ => -1,
    }
}

/// One recorded engine step: matches as {cap, kl}, per-partition run counts, longest Kleene capture, counters.
struct Step {
    matches: Vec<J>,
    nruns: BTreeMap<String, usize>,
    maxkl: usize,
    dropped: u64,
    evicted: u64,
    panic: Option<String>,
}

/// Drive the real SaseEngine over `stream`; returns one Step per event (irrelevant event types are
/// not routed to a sequence stream by the engine and are skipped here as well, as the spec does).
fn run_api(prog: &J, stream: &[J]) -> Vec<Step> { run_api_r(prog, stream, &[]) }

/// `restore_after`: indices after whose event the engine is replaced by a fresh one restored from its checkpoint
fn run_api_r(prog: &J, stream: &[J], restore_after: &[usize]) -> Vec<Step> {
    let steps = prog["steps"].as_array().unwrap();
    let nsteps = steps.len();
    let kstep = steps.iter().position(|s| s["all"].as_bool().unwrap());
    let mut eng = build(prog);
    let mut out = vec![];
    for (i, e) in stream.iter().enumerate() {
        let ty = e["type"].as_str().unwrap();
        if !relevant(prog, ty) {
            out.push(Step { matches: vec![], nruns: BTreeMap::new(), maxkl: 0, dropped: 0, evicted: 0, panic: None });
            let l = out.len();
            if l >= 2 {
                out[l - 1].nruns = out[l - 2].nruns.clone();
                out[l - 1].maxkl = out[l - 2].maxkl;
                out[l - 1].dropped = out[l - 2].dropped;
                out[l - 1].evicted = out[l - 2].evicted;
            }
            continue;
        }
        let ev = mk_event(i, e);
        let _ = varpulis_runtime::sase::verif_hook::take();
        let res = catch(|| eng.process(&ev));
        let ms = match res {
            Ok(ms) => ms,
            Err(p) => {
                out.push(Step { matches: vec![], nruns: BTreeMap::new(), maxkl: 0, dropped: 0, evicted: 0, panic: Some(p) });
                break;
            }
        };
        let combos = varpulis_runtime::sase::verif_hook::take();
        let mut matches = vec![];
        for (mi, m) in ms.iter().enumerate() {
            let cap: Vec<i64> = (1..=nsteps).map(|k| m.captured.get(&format!("s{k}")).map(|e| id_of(e)).unwrap_or(-1)).collect();
            let kl: Vec<i64> = if let Some(k) = kstep {
                let alias = format!("s{}", k + 1);
                if combos.len() == ms.len() {
                    let mut v: Vec<i64> = combos[mi].iter().map(|e| id_of(e)).collect();
                    v.sort();
                    v
                } else {
                    // no enumeration took place (eager Kleene): all accumulated events are on the stack
                    let mut v: Vec<i64> = m.stack.iter().filter(|s| s.alias.as_deref() == Some(alias.as_str())).map(|s| id_of(&s.event)).collect();
                    v.sort();
                    v.dedup();
                    v
                }
            } else {
                vec![]
            };
            matches.push(json!({"cap": cap, "kl": kl}));
        }
        // projection of the run state through the public checkpoint
        let cp = eng.checkpoint();
        let mut nruns = BTreeMap::new();
        let mut maxkl = 0usize;
        let kalias = kstep.map(|k| format!("s{}", k + 1));
        let mut scan = |runs: &Vec<varpulis_runtime::persistence::RunCheckpoint>| {
            for r in runs {
                let a = r.kleene_events.as_ref().map(|v| v.len()).unwrap_or(0);
                let b = kalias.as_ref().map(|al| r.stack.iter().filter(|s| s.alias.as_deref() == Some(al.as_str())).count()).unwrap_or(0);
                maxkl = maxkl.max(a).max(b);
            }
        };
        scan(&cp.active_runs);
        if !cp.active_runs.is_empty() {
            nruns.insert("all".to_string(), cp.active_runs.len());
        }
        for (k, v) in &cp.partitioned_runs {
            scan(v);
            if !v.is_empty() {
                nruns.insert(k.clone(), v.len());
            }
        }
        let st = eng.extended_stats();
        out.push(Step { matches, nruns, maxkl, dropped: st.total_runs_dropped, evicted: st.total_runs_evicted, panic: None });
        if restore_after.contains(&i) {
            let mut fresh = build(prog);
            fresh.restore(&cp);
            eng = fresh;
        }
    }
    out
}

fn render_vpl(prog: &J) -> Option<String> {
    if prog["maxRuns"].as_u64().unwrap() < 100 || prog["maxK"].as_u64().unwrap() < 20 || prog["strat"] != "drop" {
        return None; // caps and backpressure are builder options, not VPL
    }
    let steps = prog["steps"].as_array().unwrap();
    let mut s = String::from("stream S = ");
    for (i, st) in steps.iter().enumerate() {
        let ty = st["type"].as_str().unwrap();
        let all = st["all"].as_bool().unwrap();
        let filt = match st["f"].as_str().unwrap() {
            "none" => String::new(),
            "ge1" => " where x >= 1".to_string(),
            "eqprev" => format!(" where x == s{}.x", i),
            "gtself" => format!(" where x > s{}.x", i + 1),
            "gtself_leprev" => format!(" where x > s{}.x and x <= s{}.x", i + 1, i),
            _ => unreachable!(),
        };
        if i == 0 {
            if !filt.is_empty() || all {
                return None;
            }
            s.push_str(&format!("{} as s1\n", ty));
        } else {
            s.push_str(&format!("    -> {}{}{} as s{}\n", if all { "all " } else { "" }, ty, filt, i + 1));
        }
    }
    if prog["part"].as_bool().unwrap() {
        s.push_str("    .partition_by(key)\n");
    }
    for c in prog["negs"].as_array().unwrap() {
        let w = match c["f"].as_str().unwrap() { "none" => "", "ge1" => " where x >= 1", "eqfirst" => " where x == s1.x", _ => unreachable!() };
        s.push_str(&format!("    .not({}{})\n", c["type"].as_str().unwrap(), w));
    }
    s.push_str("    .emit(");
    for i in 0..steps.len() {
        if i > 0 {
            s.push_str(", ");
        }
        s.push_str(&format!("i{}: s{}.id", i + 1, i + 1));
    }
    s.push_str(")\n");
    Some(s)
}

/// Through the VPL front end: per event the multiset of observable tuples (alias ids; the Kleene alias shows
/// the last event of the combination).
fn run_vpl(rt: &tokio::runtime::Runtime, vpl: &str, nsteps: usize, stream: &[J]) -> Result<Vec<Vec<Vec<i64>>>, String> {
    use tokio::sync::mpsc;
    let program = varpulis_parser::parse(vpl).map_err(|e| format!("parse: {e}"))?;
    let (tx, mut rx) = mpsc::channel::<Event>(100000);
    let mut engine = varpulis_runtime::engine::Engine::new(tx);
    engine.load(&program).map_err(|e| format!("load: {e}"))?;
    let mut out = vec![];
    for (i, e) in stream.iter().enumerate() {
        let ev = mk_event(i, e);
        let r = catch(|| rt.block_on(engine.process(ev)));
        match r {
            Ok(Ok(())) => {}
            Ok(Err(e)) => return Err(format!("process: {e}")),
            Err(p) => return Err(format!("panic: {p}")),
        }
        let mut step = vec![];
        while let Ok(o) = rx.try_recv() {
            let m: Vec<i64> = (1..=nsteps)
                .map(|k| match o.data.get(format!("i{k}").as_str()) {
                    Some(Value::Int(n)) => *n,
                    _ => -1,
                })
                .collect();
            step.push(m);
        }
        step.sort();
        out.push(step);
    }
    Ok(out)
}

fn trace_block(prog: &J, stream: &[J], steps: &[Step]) -> Vec<J> {
    let mut v = vec![json!({"ev": "reset", "prog": prog})];
    for (i, e) in stream.iter().enumerate() {
        if i >= steps.len() {
            break;
        }
        let s = &steps[i];
        if s.panic.is_some() {
            v.push(json!({"ev": "panic", "e": e}));
            break;
        }
        v.push(json!({"ev": "event", "e": e, "matches": s.matches, "nruns": s.nruns.values().copied().max().unwrap_or(0),
                      "maxkl": s.maxkl, "dropped": s.dropped, "evicted": s.evicted}));
    }
    v
}

fn observable(m: &J, kstep: Option<usize>) -> Vec<i64> {
    let mut cap: Vec<i64> = m["cap"].as_array().unwrap().iter().map(|x| x.as_i64().unwrap()).collect();
    if let Some(k) = kstep {
        if k < cap.len() {
            if let Some(mx) = m["kl"].as_array().unwrap().iter().map(|x| x.as_i64().unwrap()).max() {
                cap[k] = mx;
            }
        }
    }
    cap
}

/// args: cases.ndjson report.json trace_out.ndjson
pub fn replay(args: &[String]) {
    let cases = read_cases(&args[0]);
    let mut rep = Report::new();
    let mut traces: Vec<J> = vec![];
    let rt = tokio::runtime::Builder::new_current_thread().enable_all().build().unwrap();
    for case in &cases {
        let prog = &case["prog"];
        let stream = case["stream"].as_array().unwrap();
        let steps = prog["steps"].as_array().unwrap();
        let kstep = steps.iter().position(|s| s["all"].as_bool().unwrap());
        let real = run_api(prog, stream);
        let any_out = real.iter().any(|s| !s.matches.is_empty()) || real.iter().any(|s| s.dropped + s.evicted > 0);
        rep.case(&json!({"prog": prog, "stream": stream}), any_out);
        if kstep.is_some() { rep.count("kleene_cases", 1); }
        if steps.iter().any(|s| s["f"].as_str().unwrap_or("").starts_with("gtself")) { rep.count("postponed_cases", 1); }
        if prog["maxRuns"].as_u64().unwrap() <= 2 || prog["maxK"].as_u64().unwrap() <= 2 { rep.count("tight_cap_cases", 1); }
        // ---- conformance with the model, step by step (API) ----
        let mut conform = true;
        let mout = case["out"].as_array().unwrap();      // per event: set of {cap, kl}
        for (i, s) in real.iter().enumerate() {
            if s.panic.is_some() { conform = false; break; }
            let mut exp: Vec<String> = mout[i].as_array().unwrap().iter().map(|m| json!({"cap": m["cap"], "kl": m["kl"]}).to_string()).collect();
            let mut got: Vec<String> = s.matches.iter().map(|m| m.to_string()).collect();
            exp.sort();
            got.sort();
            if exp != got { conform = false; }
        }
        if conform {
            let last = real.last().unwrap();
            let mr: u64 = case["nruns"].as_object().map(|o| o.values().map(|v| v.as_u64().unwrap()).sum()).unwrap_or(0);
            let rr: u64 = last.nruns.values().map(|v| *v as u64).sum();
            if mr != rr || last.dropped != case["dropped"].as_u64().unwrap() || last.evicted != case["evicted"].as_u64().unwrap() {
                conform = false;
            }
        }
        if conform { rep.count("api_conform", 1); } else { rep.count("api_mismatch", 1); }
        // every case is recorded; python sends the non-conforming ones (and a sample of the others) to TLC
        let mut blk = trace_block(prog, stream, &real);
        blk[0]["conform"] = json!(conform);
        traces.extend(blk);
        // ---- VPL front end ----
        if let Some(vpl) = render_vpl(prog) {
            rep.count("vpl_cases", 1);
            match run_vpl(&rt, &vpl, steps.len(), stream) {
                Err(e) => {
                    rep.violation(&["C01", "C02", "C03", "C05"], &format!("engine failed on a valid program: {e}"), &json!({"vpl": vpl, "stream": stream}), J::Null, J::Null);
                }
                Ok(vout) => {
                    // the VPL run must show exactly what the direct API run shows (same matcher behind both)
                    for (i, got) in vout.iter().enumerate() {
                        if i >= real.len() { break; }
                        let mut exp: Vec<Vec<i64>> = real[i].matches.iter().map(|m| observable(m, kstep)).collect();
                        exp.sort();
                        if &exp != got {
                            rep.count("vpl_api_mismatch", 1);
                            // classified by TLC: record the VPL observation as its own trace block (cap only)
                            let mut blk = vec![json!({"ev": "reset", "prog": prog, "conform": false, "vpl": vpl, "caponly": true})];
                            for (j, e) in stream.iter().enumerate() {
                                if j >= vout.len() { break; }
                                let ms: Vec<J> = vout[j].iter().map(|c| json!({"cap": c, "kl": []})).collect();
                                blk.push(json!({"ev": "event", "e": e, "matches": ms, "nruns": 0, "maxkl": 0, "dropped": 0, "evicted": 0}));
                            }
                            traces.extend(blk);
                            break;
                        }
                    }
                }
            }
        }
    }
    write_ndjson(&args[2], &traces);
    rep.write(&args[1]);
}

/// args: report.json trace_out.ndjson nblocks maxlen   — seeded random driver, larger than TLC's bounds
pub fn record(args: &[String]) {
    let nblocks: usize = args[2].parse().unwrap();
    let maxlen: usize = args[3].parse().unwrap();
    let mut rng = Rng::new(seed_from_env() ^ 0x5a5e);
    let mut rep = Report::new();
    let mut traces = vec![];
    let types = ["A", "B", "C", "N"];
    let keys = ["k1", "k2", "k3"];
    for _ in 0..nblocks {
        // program from the spec's grammar
        let shape = rng.below(8);
        let f2 = *rng.pick(&["none", "ge1", "eqprev"]);
        let steps: J = match shape {
            0 => json!([{"type":"A","f":"none","all":false},{"type":"B","f":f2,"all":false}]),
            1 => json!([{"type":"A","f":"ge1","all":false},{"type":"B","f":"none","all":false},{"type":"C","f":f2,"all":false}]),
            2 => json!([{"type":"A","f":"none","all":false},{"type":"A","f":f2,"all":false}]),
            3 => json!([{"type":"A","f":"none","all":false},{"type":"B","f":"none","all":true},{"type":"C","f":"none","all":false}]),
            4 => json!([{"type":"A","f":"none","all":false},{"type":"B","f":"ge1","all":true},{"type":"C","f":"none","all":false}]),
            5 => json!([{"type":"A","f":"none","all":false},{"type":"B","f": if rng.chance(1, 2) { "gtself" } else { "gtself_leprev" },"all":true},{"type":"C","f":"none","all":false}]),
            6 => json!([{"type":"A","f":"none","all":false},{"type":"B","f":f2,"all":false},{"type":"C","f":"eqprev","all":false},{"type":"A","f":"none","all":false}]),
            _ => json!([{"type":"A","f":"none","all":false},{"type":"B","f":"none","all":true}]),
        };
        let kleene = shape == 3 || shape == 4 || shape == 5 || shape == 7;
        let tight = rng.chance(1, 3);
        let prog = json!({
            "steps": steps, "part": rng.chance(1, 2),
            "negs": match rng.below(6) { 0 => json!([{"type":"N","f":"none"}]), 1 => json!([{"type":"N","f":"ge1"}]),
                                         2 => json!([{"type":"N","f":"eqfirst"},{"type":"N","f":"ge1"}]), _ => json!([]) },
            "maxRuns": if tight { 1 + rng.below(3) } else { 100 },
            "strat": *rng.pick(&["drop", "oldest", "least"]),
            "maxK": if kleene { 2 + rng.below(4) } else { 20 },
            "maxEnum": if shape == 5 && rng.chance(1, 2) { 1 + rng.below(4) } else { 100 },
        });
        let len = 6 + rng.below((maxlen - 5) as u64) as usize;
        let stream: Vec<J> = (0..len)
            .map(|_| {
                let t = if rng.chance(1, 12) { "N" } else { *rng.pick(&types[..3]) };
                json!({"type": t, "key": *rng.pick(&keys), "x": rng.below(3)})
            })
            .collect();
        // optional 5th argument "restore": checkpoint + restore into a fresh engine after random events (bounds must keep holding)
        let restores: Vec<usize> = if args.get(4).map(|s| s.as_str()) == Some("restore") { (0..len).filter(|_| rng.chance(1, 3)).collect() } else { vec![] };
        let real = run_api_r(&prog, &stream, &restores);
        let any_out = real.iter().any(|s| !s.matches.is_empty());
        rep.case(&json!({"prog": prog, "len": len, "restores": restores}), any_out);
        traces.extend(trace_block(&prog, &stream, &real));
    }
    write_ndjson(&args[1], &traces);
    rep.write(&args[0]);
}

/// args: report.json trace_out.ndjson nblocks maxn — C03 driver: streams A B^n C (all same key) over the three Kleene
/// filter kinds, with Kleene and enumeration caps around the interesting sizes (1, 2, n, 2^n - 1, 2^n).
pub fn kleene_record(args: &[String]) {
    let nblocks: usize = args[2].parse().unwrap();
    let maxn: u64 = args[3].parse().unwrap();
    let mut rng = Rng::new(seed_from_env() ^ 0xc03);
    let mut rep = Report::new();
    let mut traces = vec![];
    for b in 0..nblocks {
        let f = ["none", "ge1", "gtself", "gtself_leprev"][b % 4];
        let n = 1 + rng.below(maxn);
        let full = 1u64 << n.min(20);
        let max_k = *rng.pick(&[1, 2, n.max(1), n + 1, 20]);
        let max_enum = if f.starts_with("gtself") { *rng.pick(&[1, 2, 3, full.saturating_sub(1).max(1), full, 100000]) } else { *rng.pick(&[1, 100]) };
        let prog = json!({
            "steps": [{"type":"A","f":"none","all":false},{"type":"B","f":f,"all":true},{"type":"C","f":"none","all":false}],
            "part": rng.chance(1, 2), "negs": [], "maxRuns": 100, "strat": "drop", "maxK": max_k, "maxEnum": max_enum,
        });
        let mut stream = vec![json!({"type": "A", "key": "k1", "x": rng.below(3)})];
        for _ in 0..n {
            stream.push(json!({"type": "B", "key": "k1", "x": rng.below(3)}));
        }
        stream.push(json!({"type": "C", "key": "k1", "x": rng.below(3)}));
        let real = run_api(&prog, &stream);
        let nm = real.last().map(|s| s.matches.len()).unwrap_or(0);
        rep.case(&json!({"prog": prog, "stream": stream}), nm > 0);
        if nm > 1 { rep.count("multi_combo_cases", 1); }
        if (nm as u64) == max_enum && f.starts_with("gtself") { rep.count("enum_cap_hit", 1); }
        traces.extend(trace_block(&prog, &stream, &real));
    }
    write_ndjson(&args[1], &traces);
    rep.write(&args[0]);
}
