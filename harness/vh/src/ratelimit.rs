//! C30: spec/ratelimit/RateLimit.tla histories replayed into the real RateLimiter on the virtual clock (hook H8).
use crate::util::*;
use serde_json::{json, Value as J};
use std::net::IpAddr;
use varpulis_cluster::rate_limit::{verif_clock, RateLimitConfig, RateLimitResult, RateLimiter};

fn ip_of(c: &str) -> IpAddr { match c { "a" => "10.0.0.1", "b" => "10.0.0.2", _ => "10.0.0.3" }.parse().unwrap() }

fn run(rt: &tokio::runtime::Runtime, rate: u32, burst: u32, cap: usize, hist: &[J]) -> Vec<J> {
    let mut out = vec![json!({"ev": "reset", "rate": rate, "burst": burst})];
    verif_clock::set_offset_us(0);
    let mut cfg = RateLimitConfig::with_burst(rate, burst);
    cfg.max_tracked_ips = cap;
    let rl = match catch(|| RateLimiter::new(cfg)) { Ok(r) => r, Err(_) => { out.push(json!({"ev": "check", "c": "a", "t": 0, "ok": false, "retry_ms": -1, "panic": true})); return out; } };
    for h in hist {
        let t = h["t"].as_u64().unwrap();
        verif_clock::set_offset_us(t * 1000);
        if h["c"] == "tick" { out.push(json!({"ev": "tick", "t": t})); continue; }
        let c = h["c"].as_str().unwrap();
        match catch(|| rt.block_on(rl.check(ip_of(c)))) {
            Ok(RateLimitResult::Allowed { .. }) => out.push(json!({"ev": "check", "c": c, "t": t, "ok": true, "retry_ms": -1, "panic": false})),
            Ok(RateLimitResult::Limited { retry_after }) => out.push(json!({"ev": "check", "c": c, "t": t, "ok": false, "retry_ms": retry_after.as_millis().min(2_000_000_000) as i64, "panic": false})),
            Err(_) => { out.push(json!({"ev": "check", "c": c, "t": t, "ok": false, "retry_ms": -1, "panic": true})); break; }
        }
    }
    out
}

/// args: cases.ndjson report.json trace.ndjson
pub fn replay(args: &[String]) {
    let cases = read_cases(&args[0]);
    let mut rep = Report::new();
    let rt = tokio::runtime::Builder::new_current_thread().enable_all().build().unwrap();
    let mut traces = vec![];
    for c in &cases {
        let hist = c["hist"].as_array().unwrap();
        let b = run(&rt, c["rate"].as_u64().unwrap() as u32, c["burst"].as_u64().unwrap() as u32, c["cap"].as_u64().unwrap() as usize, hist);
        let rejected = b.iter().any(|r| r["ev"] == "check" && r["ok"] == false);
        rep.case(&json!({"rate": c["rate"], "burst": c["burst"], "hist": hist.iter().map(|h| json!([h["c"], h["t"]])).collect::<Vec<_>>()}), rejected);
        if b.iter().any(|r| r["panic"] == true) { rep.count("blocks_with_panic", 1); }
        traces.extend(b);
    }
    write_ndjson(&args[2], &traces);
    rep.write(&args[1]);
}

/// args: report.json trace.ndjson nblocks len — random request times (bursts after idle periods), larger configurations
pub fn record(args: &[String]) {
    let nblocks: usize = args[2].parse().unwrap();
    let len: usize = args[3].parse().unwrap();
    let mut rng = Rng::new(seed_from_env() ^ 0x7a7e);
    let mut rep = Report::new();
    let rt = tokio::runtime::Builder::new_current_thread().enable_all().build().unwrap();
    let mut traces = vec![];
    for _ in 0..nblocks {
        let rate = rng.below(5) as u32;
        let burst = rng.below(6) as u32;
        let mut t = 0u64;
        let mut hist = vec![];
        for _ in 0..len {
            match rng.below(10) {
                0 => { t += 1000 * (1 + rng.below(4)); hist.push(json!({"c": "tick", "t": t})); }   // idle period
                1 | 2 => { t += *rng.pick(&[1u64, 50, 250, 500]); hist.push(json!({"c": "tick", "t": t})); }
                _ => hist.push(json!({"c": *rng.pick(&["a", "b"]), "t": t})),
            }
        }
        let b = run(&rt, rate, burst, 2, &hist);
        rep.case(&json!({"rate": rate, "burst": burst, "len": len}), b.iter().any(|r| r["ev"] == "check" && r["ok"] == false));
        traces.extend(b);
    }
    write_ndjson(&args[1], &traces);
    rep.write(&args[0]);
}
