#![allow(dead_code)]
//! vh — conformance harness binding the TLA+ specifications under /verif/spec to the real varpulis code.
//! Usage: vh <engine> <args...>; every engine writes a JSON report (see util::Report).
mod util;
mod sase;
mod window;
mod vplrun;
mod expr;
mod zdd;
mod coord;
mod dispatch;
mod wm;
mod join;
mod misc;
mod ckstore;
mod ckequiv;
mod codec;
mod aggregate;
mod ratelimit;
mod breaker;
mod trend;
mod contexts;
mod pathfs;
mod inject;
mod tenantstore;
mod tenantapi;
mod rbac;
mod partition;
mod restjson;
mod conninject;
mod reload;

fn main() {
    let args: Vec<String> = std::env::args().collect();
    if args.len() < 2 {
        eprintln!("usage: vh <engine> ...");
        std::process::exit(2);
    }
    let rest = &args[2..];
    match args[1].as_str() {
        "sase-replay" => sase::replay(rest),
        "sase-record" => sase::record(rest),
        "sase-kleene" => sase::kleene_record(rest),
        "win-replay" => window::replay(rest),
        "win-record" => window::record(rest),
        "vpl-run" => vplrun::main(rest),
        "expr-replay" => expr::replay(rest),
        "cmp-edge" => expr::cmp_edge(rest),
        "expr-total" => expr::total(rest),
        "zdd-pairs" => zdd::pairs(rest),
        "zdd-machine" => zdd::machine(rest),
        "coord-replay" => coord::replay(rest),
        "coord-record" => coord::record(rest),
        "dispatch-replay" => dispatch::replay(rest),
        "wm-replay" => wm::replay(rest),
        "wm-record" => wm::record(rest),
        "join-replay" => join::replay(rest),
        "value-eq" => misc::value_eq(rest),
        "ckstore-replay" => ckstore::replay(rest),
        "ckequiv-replay" => ckequiv::replay(rest),
        "codec-replay" => codec::replay(rest),
        "agg-replay" => aggregate::replay(rest),
        "rl-replay" => ratelimit::replay(rest),
        "rl-record" => ratelimit::record(rest),
        "breaker-replay" => breaker::replay(rest),
        "trend-replay" => trend::replay(rest),
        "ctx-replay" => contexts::replay(rest),
        "ckcoord-replay" => contexts::coord_replay(rest),
        "ctx-load" => contexts::load(rest),
        "pathfs-replay" => pathfs::replay(rest),
        "inject-replay" => inject::replay(rest),
        "tenantstore-replay" => tenantstore::replay(rest),
        "tenantapi-replay" => tenantapi::replay(rest),
        "rbac-replay" => rbac::replay(rest),
        "partition-replay" => partition::replay(rest),
        "restjson-replay" => restjson::replay(rest),
        "conninject-replay" => conninject::replay(rest),
        "reload-replay" => reload::replay(rest),
        "for-expand" => misc::for_expand(rest),
        "event-file" => misc::event_file(rest),
        other => {
            eprintln!("unknown engine {other}");
            std::process::exit(2);
        }
    }
}
