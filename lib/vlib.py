"""Shared machinery for the varpulis TLA+ checks: TLC runner, case extraction,
harness build, evidence writer, known-findings matcher, verdict printing."""
import json, os, re, shutil, subprocess, sys, time, hashlib

VERIF = os.path.dirname(os.path.dirname(os.path.abspath(__file__)))
SPEC = os.path.join(VERIF, "spec")
WORK = os.path.join(VERIF, "work")
EVID = os.path.join(VERIF, "evidence")
REPLAYS = os.path.join(VERIF, "replays")
HARNESS = os.path.join(VERIF, "harness")
TLA_JAR = "/opt/veriftools/tla/tla2tools.jar"
COMMUNITY = None


class ToolError(Exception):
    pass


def log(*a):
    print(*a, flush=True)


def tier():
    return os.environ.get("VERIF_TIER", "quick")


def seed():
    try:
        return int(os.environ.get("VERIF_SEED", "1"))
    except ValueError:
        return 1


def workdir(name):
    d = os.path.join(WORK, name)
    shutil.rmtree(d, ignore_errors=True)
    os.makedirs(d, exist_ok=True)
    return d


# --------------------------------------------------------------------------
# TLC
# --------------------------------------------------------------------------
class TlcResult:
    def __init__(self):
        self.stdout = ""
        self.rc = 0
        self.generated = 0
        self.distinct = 0
        self.violated = None     # name of violated invariant / property
        self.error = None        # other TLC error text
        self.wall = 0.0
        self.coverage = {}       # action name -> count (when -coverage given)
        self.depth = 0

    @property
    def ok(self):
        return self.violated is None and self.error is None


def _tlc_classpath():
    # the `tlc` wrapper on PATH already has CommunityModules on the classpath; we call it.
    return shutil.which("tlc")


def run_tlc(specdir, module, cfg, wname, workers=8, timeout=900, simulate=None, depth=None,
            tlc_seed=None, coverage=False, env_extra=None, java_opts=None, extra=None, dfid=None):
    """Run TLC on specdir/module.tla with config cfg.  Never raises on invariant violation;
    raises ToolError on timeouts / crashes."""
    meta = workdir("tlc_%s_%d" % (wname, os.getpid()))     # per process: checks of different families may run side by side
    cmd = ["timeout", str(timeout), "tlc", "-workers", str(workers), "-metadir", meta, "-cleanup",
           "-noGenerateSpecTE", "-config", cfg]
    if simulate is not None:
        cmd += ["-simulate", "num=%d" % simulate]
        if depth is not None:
            cmd += ["-depth", str(depth)]
    if tlc_seed is not None:
        cmd += ["-seed", str(tlc_seed)]
    if coverage:
        cmd += ["-coverage", "1"]
    if extra:
        cmd += extra
    cmd += [module + ".tla"]
    env = dict(os.environ)
    jopts = java_opts or "-Xss512m"
    env["JAVA_TOOL_OPTIONS"] = jopts
    if env_extra:
        env.update(env_extra)
    t0 = time.time()
    p = subprocess.run(cmd, cwd=specdir, env=env, stdout=subprocess.PIPE, stderr=subprocess.STDOUT, text=True)
    r = TlcResult()
    r.wall = time.time() - t0
    r.stdout = p.stdout
    r.rc = p.returncode
    shutil.rmtree(meta, ignore_errors=True)
    if p.returncode == 124:
        raise ToolError("TLC timeout (%ss) on %s/%s %s" % (timeout, specdir, module, cfg))
    m = None
    for m in re.finditer(r"(\d+) states generated, (\d+) distinct states found", p.stdout):
        pass
    if m:
        r.generated, r.distinct = int(m.group(1)), int(m.group(2))
    m2 = re.search(r"The number of states generated: (\d+)", p.stdout)
    if m2 and not m:
        r.generated = int(m2.group(1))
        r.distinct = 0
    md = re.search(r"The depth of the complete state graph search is (\d+)", p.stdout)
    if md:
        r.depth = int(md.group(1))
    mv = re.search(r"Error: Invariant (\S+) is violated", p.stdout)
    if mv:
        r.violated = mv.group(1)
    mv = re.search(r"Error: Action property (\S+) is violated", p.stdout)
    if mv:
        r.violated = mv.group(1)
    if re.search(r"Error: Temporal properties were violated", p.stdout):
        r.violated = "temporal"
    if r.violated is None and (p.returncode != 0 or "Error:" in p.stdout):
        # evaluation errors, parse errors, postcondition failures ...
        me = re.search(r"Error: (.*)", p.stdout)
        r.error = (me.group(1) if me else "rc=%d" % p.returncode)
    if coverage:
        for mc in re.finditer(r"^<(\w+) line \d+, col \d+ to line \d+, col \d+ of module \w+>: (\d+):(\d+)", p.stdout, re.M):
            r.coverage[mc.group(1)] = r.coverage.get(mc.group(1), 0) + int(mc.group(3))
    return r


def need_ok(r, what):
    """MC run that must pass on the unchanged design: a violation here is a tool/spec error (exit 2)
    unless the caller handles it."""
    if r.error:
        raise ToolError("%s: TLC error: %s\n%s" % (what, r.error, r.stdout[-3000:]))
    if r.violated:
        raise ToolError("%s: invariant %s violated on the design spec\n%s" % (what, r.violated, r.stdout[-3000:]))
    if r.generated == 0:
        raise ToolError("%s: TLC reported no states\n%s" % (what, r.stdout[-2000:]))
    return r


def expect_violation(r, inv, what):
    """Faithful-deviation run: TLC must find the named invariant violated (non-vacuity of the deviation)."""
    if r.error:
        raise ToolError("%s: TLC error: %s\n%s" % (what, r.error, r.stdout[-3000:]))
    if r.violated != inv:
        raise ToolError("%s: expected violation of %s, got %s" % (what, inv, r.violated))
    return r


def extract_cases(stdout, tag="CASE"):
    """Lines printed by PrintT(<<"CASE", ToJson(..)>>)  ->  list of decoded JSON objects (deduplicated, order kept)."""
    out, seen = [], set()
    pre = '<<"%s", ' % tag
    for line in stdout.splitlines():
        if not line.startswith(pre):
            continue
        body = line[len(pre):].rstrip()
        if body.endswith(">>"):
            body = body[:-2]
        h = hashlib.md5(body.encode()).digest()
        if h in seen:
            continue
        seen.add(h)
        try:
            s = json.loads(body)          # TLA+ string literal == JSON string literal for our alphabet
        except json.JSONDecodeError:
            s = body[1:-1].replace('\\"', '"').replace("\\\\", "\\")
        out.append(json.loads(s))
    return out


def write_ndjson(path, items):
    with open(path, "w") as f:
        for it in items:
            f.write(json.dumps(it, separators=(",", ":")) + "\n")


def read_ndjson(path):
    with open(path) as f:
        return [json.loads(l) for l in f if l.strip()]


def validate_trace(specdir, module, cfg, trace_path, wname, timeout=600, xmx="4g"):
    """Trace validation: TLC reads the ndjson trace via IOEnv.TRACE; returns TlcResult.  Acceptance is the
    spec's POSTCONDITION; rejected traces show up as r.error / r.violated."""
    return run_tlc(specdir, module, cfg, wname, workers=1, timeout=timeout,
                   env_extra={"TRACE": trace_path},
                   java_opts="-Xss1g -Xmx%s -Dtlc2.tool.queue.IStateQueue=StateDeque" % xmx)


# --------------------------------------------------------------------------
# harness build / run
# --------------------------------------------------------------------------
_built = set()


def cargo_build(pkg="vh", features=None, timeout=3600):
    key = (pkg, features)
    if key in _built:
        return bin_path(pkg)
    cmd = ["cargo", "build", "--offline", "-p", pkg]
    if features:
        cmd += ["--features", features]
    env = dict(os.environ)
    env["CARGO_NET_OFFLINE"] = "true"
    t0 = time.time()
    p = subprocess.run(cmd, cwd=HARNESS, env=env, stdout=subprocess.PIPE, stderr=subprocess.STDOUT, text=True, timeout=timeout)
    if p.returncode != 0:
        raise ToolError("harness build failed (%s):\n%s" % (" ".join(cmd), p.stdout[-6000:]))
    log("[build] %s %s ok in %.0fs" % (pkg, features or "", time.time() - t0))
    _built.add(key)
    return bin_path(pkg)


def bin_path(pkg):
    return os.path.join(HARNESS, "target", "debug", pkg)


def run_harness(pkg, args, timeout=1800, features=None, env_extra=None, stdin=None):
    """Run the harness binary; it writes a JSON report to the path given in args by the caller.
    Harness exit codes: 0 = ran (verdict in report), anything else = tool error."""
    b = cargo_build(pkg, features)
    env = dict(os.environ)
    env.setdefault("RUST_BACKTRACE", "0")
    if env_extra:
        env.update(env_extra)
    try:
        p = subprocess.run([b] + [str(a) for a in args], cwd=VERIF, env=env, stdout=subprocess.PIPE,
                           stderr=subprocess.PIPE, text=True, timeout=timeout, input=stdin)
    except subprocess.TimeoutExpired:
        raise ToolError("harness timeout: %s %s" % (pkg, args))
    if p.returncode != 0:
        raise ToolError("harness %s %s failed rc=%d\nstdout:%s\nstderr:%s" % (pkg, args, p.returncode, p.stdout[-3000:], p.stderr[-3000:]))
    return p.stdout


def load_report(path):
    with open(path) as f:
        return json.load(f)


# --------------------------------------------------------------------------
# known findings
# --------------------------------------------------------------------------
def known_findings(prop):
    path = os.path.join(VERIF, "known_findings.json")
    if not os.path.exists(path):
        return []
    with open(path) as f:
        data = json.load(f)
    return [e for e in data.get("findings", []) if e.get("property") == prop]


# --------------------------------------------------------------------------
# evidence + verdict
# --------------------------------------------------------------------------
class Verdict:
    """Collects what one check run did, writes evidence and decides the exit code."""

    def __init__(self, prop, level):
        self.prop = prop
        self.level = level
        self.t0 = time.time()
        self.states = 0
        self.transitions = 0
        self.traces = 0           # traces / behaviours validated against the implementation
        self.evaluations = 0
        self.distinct_nontrivial = 0
        self.rule = ""
        self.samples = []
        self.violations = []      # dicts: {what, case, expected, got}
        self.known = {}           # finding id -> [count, description]
        self.drift = []
        self.notes = []
        self.assumptions = []
        self.exhaustive = False
        self.extra = {}
        self.checker_cmds = []

    def add_tlc(self, r, label=None):
        if os.environ.get("VERIF_DEBUG"):
            log("[tlc] %s %.1fs gen=%d distinct=%d" % (label, r.wall, r.generated, r.distinct))
        self.states += r.distinct if r.distinct else r.generated
        self.transitions += r.generated
        if label:
            self.notes.append("%s: %d generated / %d distinct, %.1fs" % (label, r.generated, r.distinct, r.wall))

    def add_report(self, rep, props=None):
        """Merge a harness report {total, distinct_nontrivial, violations[], known[], drift[], samples[]}.
        Violations / known entries carry a 'prop' list; only those naming this property count."""
        self.evaluations += rep.get("total", 0)
        self.traces += rep.get("total", 0)
        self.distinct_nontrivial += rep.get("distinct_nontrivial", 0)
        for s in rep.get("samples", [])[:3]:
            if len(self.samples) < 6:
                self.samples.append(s)
        for v in rep.get("violations", []):
            if self._mine(v):
                self.violations.append(v)
        for k in rep.get("known", []):
            if self._mine(k):
                self.add_known(k.get("finding", "?"), k.get("what", ""), k.get("count", 1))
        for d in rep.get("drift", []):
            if self._mine(d):
                self.drift.append(d)
        for k, v in rep.get("counters", {}).items():
            if isinstance(v, (int, float)):
                self.extra[k] = self.extra.get(k, 0) + v
            else:
                self.extra[k] = v

    def _mine(self, v):
        p = v.get("prop")
        if p is None:
            return True
        if isinstance(p, str):
            return p == self.prop
        return self.prop in p

    def add_known(self, fid, what, count=1):
        if fid in self.known:
            self.known[fid][0] += count
        else:
            self.known[fid] = [count, what]

    def finish(self):
        os.makedirs(EVID, exist_ok=True)
        os.makedirs(REPLAYS, exist_ok=True)
        listed = {e["id"]: e for e in known_findings(self.prop)}
        # a "known" attribution to an id that is not listed in known_findings.json is a violation
        for fid, (cnt, what) in list(self.known.items()):
            if fid not in listed:
                self.violations.append({"what": "unlisted finding %s: %s" % (fid, what), "count": cnt})
                del self.known[fid]
        replay = None
        if self.violations:
            replay = os.path.join(REPLAYS, "%s_%d.json" % (self.prop, seed()))
            with open(replay, "w") as f:
                json.dump({"property": self.prop, "tier": tier(), "seed": seed(), "violations": self.violations[:50]}, f, indent=1)
        cov = {
            "evaluations": int(self.evaluations),
            "distinct_nontrivial": int(self.distinct_nontrivial),
            "rule": self.rule,
            "samples": self.samples[:6] if self.samples else [],
            "states": int(self.states),
            "transitions": int(self.transitions),
            "traces_validated_against_impl": int(self.traces),
            "exhaustive": bool(self.exhaustive),
            "known_findings_seen": {k: v[0] for k, v in self.known.items()},
            "drift": len(self.drift),
            "notes": self.notes,
            "explanation": "; ".join(self.notes)[:2000] or self.rule,
        }
        if self.checker_cmds:
            cov["checker_cmd"] = " && ".join(self.checker_cmds)[:2000]
        cov.update(self.extra)
        ev = {
            "property_id": self.prop,
            "tier": tier() if tier() in ("quick", "thorough") else "quick",
            "seed": seed(),
            "level": self.level,
            "coverage": cov,
            "assumptions": self.assumptions,
            "wall_s": round(time.time() - self.t0, 2),
            "violations": len(self.violations),
        }
        with open(os.path.join(EVID, self.prop + ".json"), "w") as f:
            json.dump(ev, f, indent=1, default=str)
        for fid, (cnt, what) in sorted(self.known.items()):
            log("KNOWN-FINDING: property=%s %s: %s (%d cases)" % (self.prop, fid, listed[fid].get("what", what), cnt))
        for d in self.drift[:5]:
            log("DRIFT property=%s %s" % (self.prop, json.dumps(d)[:400]))
        if self.violations:
            for v in self.violations[:5]:
                log("  violation: " + json.dumps(v, default=str)[:1200])
            log("VIOLATION property=%s replay=%s" % (self.prop, replay))
            return 1
        log("OK property=%s evaluations=%d distinct_nontrivial=%d states=%d traces=%d wall=%.0fs" % (
            self.prop, self.evaluations, self.distinct_nontrivial, self.states, self.traces, time.time() - self.t0))
        return 0


# --------------------------------------------------------------------------
# generic block-wise trace validation with drift classification
# --------------------------------------------------------------------------
def split_blocks(recs):
    blocks, cur = [], None
    for r in recs:
        if r.get("ev") == "reset":
            cur = [r]
            blocks.append(cur)
        elif cur is not None:
            cur.append(r)
    return blocks


def tv_blocks(v, prop, specdir, module, const_lines, invs, trace_path, wname, conform="Conform", max_viol=5, timeout=3000):
    """Validate a recorded ndjson trace made of `reset`-separated blocks against `module` (a trace spec whose
    position variable is `l`).  Invariants `invs` are the property-level ones (evaluated on recorded outputs);
    `conform` is the model-conformance invariant.  A block failing only `conform` is DRIFT; a block failing a
    property invariant is a violation.  Returns the number of blocks accepted."""
    recs = read_ndjson(trace_path)
    remaining = split_blocks(recs)
    total_ok = 0
    cfgname = "_tv_%s_%s.cfg" % (prop, wname)
    cfgp = os.path.join(specdir, cfgname)

    def write_cfg(with_conform):
        with open(cfgp, "w") as f:
            f.write("\n".join(const_lines + ["INIT TInit", "NEXT TNext"] +
                              ["INVARIANT " + i for i in invs + ([conform] if with_conform and conform else [])] +
                              ["POSTCONDITION AcceptedMsg", "CHECK_DEADLOCK FALSE", ""]))
    rounds = 0
    try:
        while remaining and rounds < 60:
            rounds += 1
            tp = os.path.join(WORK, "%s_%s_%d.ndjson" % (wname, prop, rounds))
            write_ndjson(tp, [r for b in remaining for r in b])
            use_conform = len(v.drift) < 3      # after a few drift blocks the rest is checked in monitor mode only
            write_cfg(use_conform)
            r = validate_trace(specdir, module, cfgname, tp, "tv_%s_%s" % (prop, wname), timeout=timeout)
            v.add_tlc(r, "TV %s round %d" % (wname, rounds))
            if r.ok:
                total_ok += len(remaining)
                break
            if r.violated is None:
                raise ToolError("trace validation error (%s): %s\n%s" % (module, r.error, r.stdout[-3000:]))
            ls = re.findall(r"/\\ l = (\d+)", r.stdout)
            if not ls:
                raise ToolError("cannot locate failing record\n" + r.stdout[-2000:])
            lfail = int(ls[-1]) - 1
            pos, bi = 0, None
            for i, b in enumerate(remaining):
                if pos < lfail <= pos + len(b):
                    bi = i
                    break
                pos += len(b)
            if bi is None:
                raise ToolError("failing record %d outside trace" % lfail)
            bad = remaining[bi]
            total_ok += bi
            if r.violated == conform:
                tp1 = os.path.join(WORK, "%s_%s_blk.ndjson" % (wname, prop))
                write_ndjson(tp1, bad)
                write_cfg(False)
                r1 = validate_trace(specdir, module, cfgname, tp1, "tv1_%s_%s" % (prop, wname), timeout=timeout)
                if r1.ok:
                    v.drift.append({"prop": prop, "what": "implementation differs from the transcribed model; property invariants hold on the recorded observation", "case": bad[:14]})
                elif r1.violated:
                    v.violations.append({"what": "invariant %s false on the recorded execution of the real code" % r1.violated, "block": bad[:60]})
                else:
                    raise ToolError("monitor run error: %s\n%s" % (r1.error, r1.stdout[-2000:]))
            else:
                v.violations.append({"what": "invariant %s false on the recorded execution of the real code" % r.violated, "block": bad[:60]})
            remaining = remaining[bi + 1:]
            if len(v.violations) >= max_viol:
                break
    finally:
        try:
            os.remove(cfgp)
        except OSError:
            pass
    return total_ok
