"""C25 — spec/trend/Trend.tla: brute-force reference (number of index sets matching the Kleene pattern, cross-checked against a DP
form by TLC) and a faithful transcription of the Hamlet aggregator (template builder, per-event state updates, closed graphlets in
shared / non-shared mode, flush).  TLC enumerates every type sequence up to a length; each is replayed into the real HamletAggregator."""
import os
import vlib
from vlib import Verdict, run_tlc, extract_cases, write_ndjson, run_harness, load_report, workdir

SPEC = os.path.join(vlib.SPEC, "trend")
SETS = {"Q_AB": "A,B:2", "Q_ABC": "A,B,C:2", "Q_CB": "C,B:2", "Q_CBA": "C,B,A:2",
        "Q_AB_CB": "A,B:2;C,B:2", "Q_AB_ABC": "A,B:2;A,B,C:2", "Q_ABC_CBA": "A,B,C:2;C,B,A:2"}
PARTS = {"Q_AB_CB": ["Q_AB", "Q_CB"], "Q_AB_ABC": ["Q_AB", "Q_ABC"], "Q_ABC_CBA": ["Q_ABC", "Q_CBA"]}


def gen(v, name, maxlen, w):
    cfg = "_%s.cfg" % name
    with open(os.path.join(SPEC, cfg), "w") as f:
        f.write("SPECIFICATION Spec\nCONSTANTS Queries <- %s\n  Alphabet <- Alpha3\n  MaxLen = %d\nINVARIANT RefAgree\nINVARIANT Emit\nCHECK_DEADLOCK FALSE\n" % (name, maxlen))
    try:
        r = run_tlc(SPEC, "MCTrend", cfg, "trend_" + name, workers=4, timeout=1800)
    finally:
        os.remove(os.path.join(SPEC, cfg))
    if r.error or r.violated:
        raise vlib.ToolError("Trend %s: %s %s" % (name, r.error, r.violated))
    cases = extract_cases(r.stdout)
    v.add_tlc(r, "%s: %d sequences (RefAgree: DP = brute force on each)" % (name, len(cases)))
    path = os.path.join(w, name + ".ndjson")
    write_ndjson(path, cases)
    return path, len(cases)


def run(prop, replay=None):
    quick = vlib.tier() != "thorough"
    v = Verdict(prop, "model_checking")
    v.rule = ("case = (query set of 7: A B+, A B+ C, C B+, C B+ A alone and three pairs; every event-type sequence over {A,B,C} up to length 6 (thorough 8)); "
              "each also replayed as a second window on a reused aggregator; non-trivial = the reference count is positive; distinct by hash")
    v.assumptions = ["HamletAggregator API level (incremental mode); the engine's .trend_aggregate wiring defect is described in DESIGN.md section 7"]
    v.exhaustive = True
    w = workdir("trend")
    L = 6 if quick else 8
    paths = {}
    for name in SETS:
        paths[name], _ = gen(v, name, L, w)
    v.checker_cmds.append("tlc MCTrend.tla (7 query sets)")
    for name, q in SETS.items():
        rpath = os.path.join(w, "report_%s.json" % name)
        extra = [paths[p] for p in PARTS.get(name, [])]
        run_harness("vh", ["trend-replay", q, paths[name], rpath] + extra, timeout=3000)
        rep = load_report(rpath)
        v.add_report(rep)
        v.notes.append("%s: %d sequences replayed, faithful-model mismatches %d, second windows %d" % (name, rep["total"], rep["counters"].get("model_mismatch", 0), rep["counters"].get("second_windows", 0)))
    return v.finish()
