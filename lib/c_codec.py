"""C20 — spec/checkpoint/ValueCodec.tla enumerates (checkpoint section, value shape, timestamp precision); each case builds a real
engine checkpoint, serialises and reads it back, restores it, and compares."""
import os
import vlib
from vlib import Verdict, run_tlc, extract_cases, write_ndjson, run_harness, load_report, workdir

SPEC = os.path.join(vlib.SPEC, "checkpoint")


def run(prop, replay=None):
    v = Verdict(prop, "exploration")
    v.rule = ("case = (section that stores events: window buffer / sequence run / join buffer / variable; value shape of 28: int extremes, NaN, infinities, -0.0, unicode and "
              "escaped strings, nanosecond timestamps, u64 duration, nested arrays/maps; event time with or without sub-millisecond part); all 224 combinations; every case non-trivial")
    v.exhaustive = True
    v.assumptions = ["JSON checkpoint format (the default build)", "checkpoints compared through their Debug rendering"]
    w = workdir("codec")
    r = run_tlc(SPEC, "ValueCodec", "ValueCodec.cfg", "codec", workers=2, timeout=600)
    if r.error or r.violated:
        raise vlib.ToolError("ValueCodec: %s %s" % (r.error, r.violated))
    cases = extract_cases(r.stdout)
    v.add_tlc(r, "ValueCodec enumeration: %d cases" % len(cases))
    cpath, rpath = os.path.join(w, "cases.ndjson"), os.path.join(w, "report.json")
    write_ndjson(cpath, cases)
    run_harness("vh", ["codec-replay", cpath, rpath], timeout=1800)
    rep = load_report(rpath)
    v.add_report(rep)
    return v.finish()
