"""C32, C33 (C34 in c_inject) — spec/coordinator/Coordinator.tla: the coordinator's bookkeeping as a state machine whose
atomic actions are the public calls made under its lock (plan / commit phases separate).  MC: bookkeeping holds for
sequential use and is violated by interleavings (faithful model).  GEN: TLC histories replayed on a real Coordinator.
TV: every recorded call sequence (generated and random) validated by TLC against CoordTrace.tla."""
import os
import vlib
from vlib import Verdict, run_tlc, need_ok, extract_cases, write_ndjson, run_harness, load_report, workdir, tv_blocks

SPEC = os.path.join(vlib.SPEC, "coordinator")
CONST = ["CONSTANTS", '  W = {"w1","w2"}', "  Groups <- MCGroups", "  Order <- MCOrder", "  MaxPlans = 1000000", "  MaxPipes = 100", "  MaxLen = 1000000"]
INV = {"C32": ["RNoNewErrs"], "C33": ["RC33"]}


def tlc_cfg(name, text, module, wname, **kw):
    path = os.path.join(SPEC, name)
    with open(path, "w") as f:
        f.write(text)
    try:
        return run_tlc(SPEC, module, name, wname, **kw)
    finally:
        os.remove(path)


def run(prop, replay=None):
    if prop == "C34":
        import c_inject
        return c_inject.run(prop, replay)
    quick = vlib.tier() != "thorough"
    v = Verdict(prop, "model_checking")
    v.rule = ("case = a history of coordinator calls (register, deregister, heartbeat, ageing, sweep, draining, plan/commit of deploy, teardown, migrate with every "
              "per-pipeline outcome) on 2 workers and 2 groups; non-trivial = contains at least one commit; distinct by hash of the call sequence")
    v.assumptions = ["worker outcomes are fabricated DeployTaskResults (the HTTP execute phase is outside the lock and outside this check)",
                     "drain / failover / rebalance are compositions of the modelled migrate phases plus HTTP; their monolithic async paths are not driven",
                     "heartbeat age is set through the public last_heartbeat field (timeout + 2 s / fresh)"]
    w = workdir("coord_" + prop)
    base = 'CONSTANTS W = {"w1","w2"} Groups <- MCGroups Order <- MCOrder MaxPlans = %d MaxPipes = 100 MaxLen = %d\n'
    # MC
    r = need_ok(tlc_cfg("_seq.cfg", base % (4, 0) + "INIT Init\nNEXT SeqNext\nINVARIANT Bookkeeping\nCHECK_DEADLOCK FALSE\n", "CoordMC", "seq_" + prop, workers=8, timeout=1800), "MC sequential")
    v.add_tlc(r, "MC: Bookkeeping holds for sequential use (one plan in flight)")
    r2 = tlc_cfg("_faith.cfg", base % (4, 0) + "INIT Init\nNEXT NoHbNext\nINVARIANT Bookkeeping\nCHECK_DEADLOCK FALSE\n", "CoordMC", "faith_" + prop, workers=8, timeout=1800)
    if r2.violated != "Bookkeeping":
        raise vlib.ToolError("faithful interleaving model expected to violate Bookkeeping: %s" % (r2.error or r2.violated))
    v.notes.append("MC: interleaved plan/commit phases violate Bookkeeping at design level (recorded finding C32-commit-on-changed-state)")
    v.checker_cmds.append("tlc CoordMC.tla (SeqNext / NoHbNext)")
    # GEN
    L = 9 if quick else 12
    r = tlc_cfg("_gen.cfg", base % (6, L) + "INIT GInit\nNEXT GNext\nINVARIANT Emit\nCONSTRAINT Stop\nCHECK_DEADLOCK FALSE\n", "CoordGen", "gen_" + prop, workers=1, timeout=1800,
                simulate=(1300 if quick else 6000), depth=L + 1, tlc_seed=vlib.seed())
    if r.error:
        raise vlib.ToolError("GEN: " + r.error + r.stdout[-1500:])
    cases = extract_cases(r.stdout)
    if len(cases) < 100:
        raise vlib.ToolError("GEN produced only %d histories" % len(cases))
    cases = cases[:((1200 if prop == "C33" else 500) if quick else 9000)]
    v.add_tlc(r, "GEN simulate (interleaved phases)")
    if prop == "C32":
        # state coverage: one call history per TRANSITION of sequential use (breadth-first, history hidden by a VIEW)
        rs = tlc_cfg("_cov.cfg", base % (5 if quick else 6, 0) + "INIT GInit\nNEXT GSeqNext\nVIEW StateView\nINVARIANT EmitAll\nCHECK_DEADLOCK FALSE\n", "CoordGen", "cov_" + prop, workers=4, timeout=1800)
        if rs.error or rs.violated:
            raise vlib.ToolError("GEN coverage: %s %s" % (rs.error, rs.violated))
        cov = extract_cases(rs.stdout)
        v.add_tlc(rs, "GEN transition coverage: %d histories, one per transition of the sequential state graph" % len(cov))
        cases = cov + cases
    if prop == "C32":
        # the monolithic Coordinator::migrate_pipeline (used by failover, rebalance and drain) = plan + HTTP + commit in one call:
        # directed histories over source reachable / unreachable / already unhealthy and target reachable / unreachable
        mono = []
        for src in ("mock", "dead"):
            for unhealthy in (False, True):
                for tgt in ("mock", "dead"):
                    for pipe in ("p1", "p2"):
                        h = [{"a": "register", "w": "w1", "addr": src}, {"a": "register", "w": "w2", "addr": tgt},
                             {"a": "plan_deploy", "g": "g1", "pin": {"p1": "w1", "p2": "w1"}, "id": 0},
                             {"a": "commit_deploy", "id": 0, "ok": {"p1": True, "p2": True}}]
                        if unhealthy:
                            h += [{"a": "age", "w": "w1"}, {"a": "sweep"}]
                        h += [{"a": "migrate_mono", "p": pipe, "g": "g1", "tgt": "w2"},
                              {"a": "plan_teardown", "g": "g1", "id": 2}, {"a": "commit_teardown", "id": 2}]
                        mono.append({"hist": h})
        v.notes.append("%d directed histories through the monolithic migrate_pipeline (loopback mock worker)" % len(mono))
        cases = mono + cases
    if prop == "C33":
        rh = tlc_cfg("_hcov.cfg", base % (0, 0) + "INIT GInit\nNEXT GHealthNext\nVIEW StateView\nINVARIANT EmitAll\nCHECK_DEADLOCK FALSE\n", "CoordGen", "hcov_" + prop, workers=4, timeout=1800)
        if rh.error or rh.violated:
            raise vlib.ToolError("GEN health coverage: %s %s" % (rh.error, rh.violated))
        hc = extract_cases(rh.stdout)
        for c in hc:
            c["cap"] = 2          # worker capacity for these histories: a heartbeat reporting 2 running pipelines saturates the worker
        v.add_tlc(rh, "GEN health transition coverage: %d histories (one per transition of the health state graph), run with worker capacity 2" % len(hc))
        cases = hc + cases
    cpath, rpath, tpath = os.path.join(w, "cases.ndjson"), os.path.join(w, "report.json"), os.path.join(w, "trace.ndjson")
    write_ndjson(cpath, cases)
    run_harness("vh", ["coord-replay", cpath, rpath, tpath])
    rep = load_report(rpath)
    v.add_report(rep)
    ok1 = tv_blocks(v, prop, SPEC, "CoordTrace", CONST, INV[prop], tpath, "gen")
    # TV random
    rep2, tr2 = os.path.join(w, "report2.json"), os.path.join(w, "trace2.ndjson")
    run_harness("vh", ["coord-record", rep2, tr2, 150 if quick else 1500, 14 if quick else 24])
    rp2 = load_report(rep2)
    v.add_report(rp2)
    ok2 = tv_blocks(v, prop, SPEC, "CoordTrace", CONST, INV[prop], tr2, "rnd")
    nd = rep["counters"].get("blocks_with_bookkeeping_discrepancy", 0) + rp2["counters"].get("blocks_with_bookkeeping_discrepancy", 0)
    ns = rep["counters"].get("blocks_with_effective_sweep", 0) + rp2["counters"].get("blocks_with_effective_sweep", 0)
    v.notes.append("%d generated + %d random histories accepted by TLC; %d histories show a bookkeeping discrepancy (all predicted by the faithful model), %d contain a sweep that marks a worker" % (ok1, ok2, nd, ns))
    if prop == "C32" and nd and not v.violations:
        v.add_known("C32-commit-on-changed-state", "bookkeeping discrepancy predicted by the faithful model", nd)
    if prop == "C33" and ns == 0:
        raise vlib.ToolError("no effective sweep exercised: C33 check vacuous")
    return v.finish()
