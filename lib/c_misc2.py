"""C39 (ConnInject.tla) and C44 (RestJson.tla): character-/value-level round-trip models whose every enumerated value is pushed
through the real code path."""
import os
import vlib
from vlib import Verdict, run_tlc, extract_cases, write_ndjson, run_harness, load_report, workdir


def run_c39(prop):
    quick = vlib.tier() != "thorough"
    SPEC = os.path.join(vlib.SPEC, "connector")
    v = Verdict(prop, "model_checking")
    v.rule = ("case = (parameter value: every string over a 16-character alphabet up to length 3 (thorough 4) plus a word list, pipeline template of 8); "
              "non-trivial = non-empty value the character-level model says round-trips; distinct by hash")
    v.exhaustive = True
    v.assumptions = ["parameter names are plain identifiers (the property quantifies over values)",
                     "values the grammar cannot write at all (unescaped quote, odd trailing backslashes) are the recorded finding class, computed by the spec"]
    w = workdir("conninject")
    cfg = "_ci.cfg"
    with open(os.path.join(SPEC, cfg), "w") as f:
        f.write(open(os.path.join(SPEC, "ConnInject.cfg")).read().replace("MaxLen = 3", "MaxLen = %d" % (3 if quick else 4)))
    r = run_tlc(SPEC, "ConnInject", cfg, "conninject", workers=4, timeout=3000)
    os.remove(os.path.join(SPEC, cfg))
    if r.error:
        raise vlib.ToolError("ConnInject: " + r.error)
    cases = extract_cases(r.stdout)
    v.add_tlc(r, "ConnInject: RoundTrips <=> Representable on every value; %d cases" % len(cases))
    # word list: classified by the same closed form (TLC proved it equal to the lexer model on the enumerated values)
    words = ["inf", "-inf", "nan", "NaN", "infinity", "1e5", "1E-3", "007", "1.50", "1.5", "-5", "+5", "1.", ".5", "0x10", "1_000", "9223372036854775807",
             "9223372036854775808", "18446744073709551616", "1883", "0", "00", "true", "false", "null", "5s", "10ms", "localhost", "tcp://h:1883", "a b", " lead", "trail ",
             "üñí©ode", "日本", "tab\there", "new\nline", "semi;colon", "hash#tag", "paren)", "comma, x: 1", "a\\b", "a\\\\", "C:\\dir\\", "\\", "\\\\", "\"", "say \"hi\"", "\", x: \"1", "'single'", "{brace}", "$var", ""]
    def scan(s):
        i = 0
        while i < len(s):
            if s[i] == '"':
                return False
            if s[i] == '\\':
                if i + 1 >= len(s):
                    return False
                i += 2
            else:
                i += 1
        return True
    for wd in words:
        canon = wd.isdigit() and wd.isascii() and (len(wd) == 1 or wd[0] != "0") and int(wd) <= 2**63 - 1
        for t in ["from", "to", "both", "declared", "unknown", "comment", "rich", "append"]:
            cases.append({"value": list(wd), "tmpl": t, "cls": "exact" if (canon or scan(wd)) else "unrepresentable", "bare": canon})
    cpath, rpath = os.path.join(w, "cases.ndjson"), os.path.join(w, "report.json")
    write_ndjson(cpath, cases)
    run_harness("vh", ["conninject-replay", cpath, rpath], timeout=3000)
    rep = load_report(rpath)
    v.add_report(rep)
    v.notes.append("counters: %s" % rep["counters"])
    return v.finish()


def run_c44(prop):
    quick = vlib.tier() != "thorough"
    SPEC = os.path.join(vlib.SPEC, "restjson")
    v = Verdict(prop, "model_checking")
    v.rule = ("case = symbolic JSON term (30 leaf classes; arrays up to width 2 (thorough 3) and objects over 2 keys of leaves; thorough adds depth 2 samples) "
              "sent through inject and inject-batch into a typed and a pass-through pipeline; every case is non-trivial; distinct by hash")
    v.exhaustive = True
    v.assumptions = ["JSON-representable = what serde_json parses without loss (finite numbers up to u64/f64)",
                     "the pipeline's view of the type is type_of(v)"]
    w = workdir("restjson")
    cases = []
    for faithful, label in (("FALSE", "ideal"), ("TRUE", "faithful")):
        cfg = "_rj.cfg"
        with open(os.path.join(SPEC, cfg), "w") as f:
            f.write(open(os.path.join(SPEC, "RestJson.cfg")).read().replace("Faithful = TRUE", "Faithful = " + faithful).replace("Width = 2", "Width = %d" % (2 if quick else 3)))
        r = run_tlc(SPEC, "RestJson", cfg, "restjson", workers=1, timeout=3000, java_opts="-Xss1g")
        os.remove(os.path.join(SPEC, cfg))
        if r.error:
            raise vlib.ToolError("RestJson(%s): %s" % (label, r.error))
        got = extract_cases(r.stdout)
        v.add_tlc(r, "RestJson %s: Design invariant on %d terms" % (label, len(got)))
        if faithful == "TRUE":
            cases = got
    cpath, rpath = os.path.join(w, "cases.ndjson"), os.path.join(w, "report.json")
    write_ndjson(cpath, cases)
    run_harness("vh", ["restjson-replay", cpath, rpath], timeout=3000)
    rep = load_report(rpath)
    v.add_report(rep)
    v.notes.append("counters: %s" % rep["counters"])
    return v.finish()


def run(prop, replay=None):
    if prop == "C39":
        return run_c39(prop)
    if prop == "C44":
        return run_c44(prop)
    raise vlib.ToolError("no check for " + prop)
