"""C45 — spec/breaker/Breaker.tla: circuit breaker + resilient sink with concurrent senders (two-step send: allow_request, then
inner send result + record_* + DLQ).  MC: NoLoss, OpensExactly, OneProbe over all interleavings.  GEN/TV: schedules replayed on a real
ResilientSink + DeadLetterQueue with a gated inner sink and a virtual clock (hook H2); recorded admissions / deliveries / DLQ lines
validated by TLC (BreakerTrace.tla)."""
import os
import vlib
from vlib import Verdict, run_tlc, need_ok, extract_cases, write_ndjson, run_harness, load_report, workdir, tv_blocks

SPEC = os.path.join(vlib.SPEC, "breaker")


def tlc_cfg(name, text, module, wname, **kw):
    path = os.path.join(SPEC, name)
    with open(path, "w") as f:
        f.write(text)
    try:
        return run_tlc(SPEC, module, name, wname, **kw)
    finally:
        os.remove(path)


def run(prop, replay=None):
    quick = vlib.tier() != "thorough"
    v = Verdict(prop, "model_checking")
    v.rule = ("case = schedule of clock ticks, begin(sender) and finish(sender, outcome) steps of up to 3 concurrent senders, failure threshold 1..3, reset timeout 1..2 ticks; "
              "non-trivial = at least one send rejected by the breaker; distinct by hash")
    v.assumptions = ["allow_request / record_* are atomic under the breaker's mutex, so a thread schedule is an order of these calls; the harness realises the order with a gated inner sink on a current-thread runtime",
                     "virtual clock (hook H2) for the reset timeout; time unit 1 s"]
    w = workdir("breaker")
    base = 'CONSTANTS Senders = {"s1","s2","s3"} Threshold = %d ResetTimeout = %d MaxTime = %d MaxSends = %d SingleProbe = %s MaxHist = %d\nINIT Init\nNEXT Next\n'
    r = need_ok(tlc_cfg("_mc.cfg", base % (2, 2, 5, 5 if quick else 6, "TRUE", 1000) + "VIEW StateView\nINVARIANTS NoLoss OpensExactly OneProbe\nCHECK_DEADLOCK FALSE\n", "BreakerMC", "mc", workers=8, timeout=1800), "MC single-probe design")
    v.add_tlc(r, "MC NoLoss/OpensExactly/OneProbe on the single-probe design")
    r0 = tlc_cfg("_mc0.cfg", base % (2, 2, 5, 5, "FALSE", 1000) + "VIEW StateView\nINVARIANT OneProbe\nCHECK_DEADLOCK FALSE\n", "BreakerMC", "mc0", workers=8, timeout=900)
    if r0.violated != "OneProbe":
        raise vlib.ToolError("multi-probe switch expected to violate OneProbe: %s" % (r0.error or r0.violated))
    v.notes.append("spec switch SingleProbe=FALSE (half-open admits every caller) violates OneProbe at design level")
    v.checker_cmds.append("tlc BreakerMC.tla")
    cases = []
    for th, to in ((1, 1), (2, 2), (3, 1)):
        L = 11 if quick else 14
        r = tlc_cfg("_gen.cfg", base % (th, to, 6, 7, "TRUE", L) + "INVARIANT Emit\nCONSTRAINT Stop\nCHECK_DEADLOCK FALSE\n", "BreakerMC", "gen%d" % th, workers=1, timeout=1800,
                    simulate=(500 if quick else 8000), depth=L + 1, tlc_seed=vlib.seed())
        if r.error:
            raise vlib.ToolError("GEN: " + r.error)
        cs = extract_cases(r.stdout)
        v.add_tlc(r, "GEN threshold=%d timeout=%d: %d schedules" % (th, to, len(cs)))
        cases.append((th, to, cs[:(500 if quick else 100000)]))
    # exhaustive single-sender schedules: every order of ticks and completed sends long enough for open -> probe -> closed -> failures again
    base1 = base.replace('{"s1","s2","s3"}', '{"s1"}')
    for th, to, mt in ((2, 2, 4), (3, 1, 3)):
        r = tlc_cfg("_seq.cfg", base1 % (th, to, mt, 6, "TRUE", 13) + "INVARIANT Emit\nCONSTRAINT Stop\nCHECK_DEADLOCK FALSE\n", "BreakerMC", "seq%d" % th, workers=4, timeout=1800)
        if r.error:
            raise vlib.ToolError("GEN single sender: " + r.error)
        cs = extract_cases(r.stdout)
        if not quick or len(cs) <= 3000:
            pass
        else:
            cs = cs[::len(cs) // 3000 + 1] + [c for c in cs if sum(1 for h in c["hist"] if h["a"] == "finish" and h["ok"]) == 1 and c["hist"][-1]["a"] == "begin"][:1500]
        v.add_tlc(r, "GEN single sender threshold=%d timeout=%d: %d schedules (exhaustive to length 13)" % (th, to, len(cs)))
        cases.append((th + 10, to, cs))
    for th, to, cs in cases:
        if len(cs) < 30:
            raise vlib.ToolError("GEN produced only %d schedules" % len(cs))
        cpath, rpath, tpath = os.path.join(w, "cases%d.ndjson" % th), os.path.join(w, "report%d.json" % th), os.path.join(w, "trace%d.ndjson" % th)
        wn = "gen%d" % th
        write_ndjson(cpath, cs)
        run_harness("vh", ["breaker-replay", cpath, rpath, tpath])
        rep = load_report(rpath)
        v.add_report(rep)
        label = th
        th = th % 10
        const = ["CONSTANTS", '  Senders = {"s1","s2","s3"}', "  Threshold = %d" % th, "  ResetTimeout = %d" % to, "  MaxTime = 1000000", "  MaxSends = 1000000", "  SingleProbe = TRUE", "  MaxHist = 1000000"]
        ok = tv_blocks(v, prop, SPEC, "BreakerTrace", const, ["RContract", "RNoLoss"], tpath, wn)
        v.notes.append("threshold=%d timeout=%d: %d schedules replayed, %d trace blocks accepted by TLC" % (th, to, rep["total"], ok))
    return v.finish()
