"""C28 (tenant isolation) and C29 (role enforcement)."""
import os
import vlib
from vlib import Verdict, run_tlc, extract_cases, write_ndjson, run_harness, load_report, workdir

SPEC = os.path.join(vlib.SPEC, "api")


def run_c28(prop):
    quick = vlib.tier() != "thorough"
    v = Verdict(prop, "model_checking")
    v.rule = ("case = sequence of 1..2 requests (10 endpoints x 5 credentials: three tenant keys two of which differ only in letter case, a wrong key, none x 4 targets: each tenant's pipeline, "
              "an unknown id); all sequences (quick: all single requests + a seed-dependent sample of pairs); non-trivial = some request addresses another tenant's pipeline")
    v.assumptions = ["REST routes driven in-process through warp::test", "state compared: pipeline existence, per-tenant usage counter, pipeline source version"]
    w = workdir("api28")
    cfg = "_ta.cfg"
    cases = []
    for n in (1, 2):
        with open(os.path.join(SPEC, cfg), "w") as f:
            f.write("CONSTANT MaxReqs = %d\nSPECIFICATION Spec\nPROPERTY Isolation\nINVARIANT Emit\nCHECK_DEADLOCK FALSE\n" % n)
        r = run_tlc(SPEC, "TenantApi", cfg, "api28_%d" % n, workers=4, timeout=1800)
        os.remove(os.path.join(SPEC, cfg))
        if r.error or r.violated:
            raise vlib.ToolError("TenantApi: %s %s" % (r.error, r.violated))
        cs = extract_cases(r.stdout)
        v.add_tlc(r, "TenantApi MaxReqs=%d: %d request sequences; the reference satisfies Isolation" % (n, len(cs)))
        if n == 2 and quick:
            sd = vlib.seed()
            cs = [c for i, c in enumerate(cs) if (i + sd) % 12 == 0]
        cases += cs
    if not quick:
        v.exhaustive = True
    v.checker_cmds.append("tlc TenantApi.tla")
    cpath, rpath = os.path.join(w, "cases.ndjson"), os.path.join(w, "report.json")
    write_ndjson(cpath, cases)
    run_harness("vh", ["tenantapi-replay", cpath, rpath], timeout=3000)
    v.add_report(load_report(rpath))
    return v.finish()


def run(prop, replay=None):
    if prop == "C28":
        return run_c28(prop)
    import c_rbac
    return c_rbac.run(prop, replay)
