"""C15 — spec/join/Join.tla: three-valued reference for join correlation (must / must not / either) and for which entry of
each source supplies the fields.  GEN: TLC arrival sequences (in-order and disordered, dense around the window boundary)
replayed into JoinBuffer and into an engine-level join program.  TV: recorded outputs validated by TLC (JoinTrace.tla)."""
import os
import vlib
from vlib import Verdict, run_tlc, need_ok, extract_cases, write_ndjson, run_harness, load_report, workdir, tv_blocks, read_ndjson, split_blocks

SPEC = os.path.join(vlib.SPEC, "join")


def tlc_cfg(name, text, module, wname, **kw):
    path = os.path.join(SPEC, name)
    with open(path, "w") as f:
        f.write(text)
    try:
        return run_tlc(SPEC, module, name, wname, **kw)
    finally:
        os.remove(path)


def run(prop, replay=None):
    quick = vlib.tier() != "thorough"
    v = Verdict(prop, "model_checking")
    v.rule = ("case = sequence of arrivals (source A/B, key 1/2, timestamp in 50 ms units, steps 0..3 units forward, optionally up to 25 units back); window 20 units; "
              "non-trivial = at least one joined output; distinct by hash")
    v.assumptions = ["two sources, integer keys", "'within the join window' for a buffered entry LATER than the arriving event is left open (either)"]
    w = workdir("join")
    base = 'CONSTANTS Srcs = {"A","B"} Keys = {1,2} W = %d MaxLen = %d Steps = %s Back = %d\nINIT Init\nNEXT Next\n'
    r = need_ok(tlc_cfg("_mc.cfg", base % (4, 4 if quick else 5, "{0,1,2,3}", 0) + "INVARIANT RefTotal\nCHECK_DEADLOCK FALSE\n", "Join", "mc", workers=8, timeout=1800), "MC reference totality")
    v.add_tlc(r, "MC: the reference decides every in-order arrival (no 'either')")
    v.checker_cmds.append("tlc Join.tla / JoinGen.tla")
    cases = []
    for back, steps, n in ((0, "{0,1,2,3}", 40 if quick else 1500), (0, "{0,1,19,20,21}", 60 if quick else 1500), (25, "{0,1,2,3}", 25 if quick else 600)):
        r = tlc_cfg("_gen.cfg", base % (20, (12 if steps == "{0,1,2,3}" else 7) if quick else 16, steps, back) + "INVARIANT Emit\nCHECK_DEADLOCK FALSE\n", "JoinGen", "gen%d" % back, workers=1, timeout=1800,
                    simulate=n, depth=((13 if steps == "{0,1,2,3}" else 8) if quick else 17), tlc_seed=vlib.seed())
        if r.error:
            raise vlib.ToolError("GEN: " + r.error)
        cs = extract_cases(r.stdout)
        v.add_tlc(r, "GEN steps=%s back=%d: %d cases" % (steps, back, len(cs)))
        cases += cs[:(900 if quick else 100000)] if back == 0 else cs[:(400 if quick else 100000)]
    if len(cases) < 100:
        raise vlib.ToolError("GEN produced only %d cases" % len(cases))
    cpath, rpath, tpath = os.path.join(w, "cases.ndjson"), os.path.join(w, "report.json"), os.path.join(w, "trace.ndjson")
    write_ndjson(cpath, cases)
    run_harness("vh", ["join-replay", cpath, rpath, tpath, 2100])
    rep = load_report(rpath)
    v.add_report(rep)
    const = ["CONSTANTS", '  Srcs = {"A","B"}', "  Keys = {1,2}", "  W = 20", "  MaxLen = 1000000", "  Steps = {0}", "  Back = 0"]
    ok1 = tv_blocks(v, prop, SPEC, "JoinTrace", const, ["RJoinOk"], tpath, "gen", conform="RNoMiss")
    nd = len(v.drift)
    v.drift = []
    if nd:
        v.add_known("C15-gc-out-of-order", "missing correlation after out-of-order arrivals", nd)
    v.notes.append("%d trace blocks (JoinBuffer and engine level) validated by TLC; blocks with a missing correlation after disorder: %s" % (ok1 + nd, nd if nd < 3 else ">=3 (classification stops after 3)"))
    return v.finish()
