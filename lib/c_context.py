"""C26, C27 — spec/context/Contexts.tla: two contexts with bounded queues, try_send forwarding, coordinated checkpoint barriers.
MC: the property-satisfying design (blocking forward, aligned barriers) satisfies Delivered and ConsistentCut; the faithful switches
violate them (recorded findings).  GEN: TLC schedules of the faithful model replayed deterministically on real ContextRuntimes (the
harness owns every channel between the contexts and uses acknowledged barriers as fences); C26 additionally runs the real
ContextOrchestrator under a burst against the same program without contexts."""
import os
import vlib
from vlib import Verdict, run_tlc, need_ok, extract_cases, write_ndjson, run_harness, load_report, workdir

SPEC = os.path.join(vlib.SPEC, "context")


def tlc_cfg(name, text, module, wname, **kw):
    path = os.path.join(SPEC, name)
    with open(path, "w") as f:
        f.write(text)
    try:
        return run_tlc(SPEC, module, name, wname, **kw)
    finally:
        os.remove(path)


def run(prop, replay=None):
    quick = vlib.tier() != "thorough"
    v = Verdict(prop, "model_checking")
    v.rule = ("case = schedule of ingest / producer-step / consumer-step / checkpoint-initiate actions on a two-context pipeline with queue capacity 1..2 and 3 inputs "
              "(every schedule of the faithful model up to the bound); non-trivial = the consumer processed at least one event; distinct by hash")
    v.assumptions = ["two contexts, linear pipeline D = A.context(c1), E = D.context(c2)",
                     "a context 'takes one message' = the harness hands it one message and waits for an acknowledged fence barrier",
                     "same-context chains and several contexts consuming one type are described in DESIGN.md section 7 and not driven here"]
    w = workdir("ctx_" + prop)
    base = "CONSTANTS N = 3 Cap = %d DropOnFull = %s Aligned = %s MaxHist = %d\nINIT Init\nNEXT Next\n"
    r = need_ok(tlc_cfg("_mc.cfg", base % (2, "FALSE", "TRUE", 100) + "VIEW StateView\nINVARIANTS Delivered ConsistentCut\nCHECK_DEADLOCK FALSE\n", "ContextsMC", "mc", workers=4, timeout=600), "MC ideal design")
    v.add_tlc(r, "MC: blocking forward + aligned barriers satisfy Delivered and ConsistentCut")
    inv = "Delivered" if prop == "C26" else "ConsistentCut"
    r0 = tlc_cfg("_mc0.cfg", base % (2, "TRUE", "FALSE", 100) + "VIEW StateView\nINVARIANT %s\nCHECK_DEADLOCK FALSE\n" % inv, "ContextsMC", "mc0", workers=4, timeout=600)
    if r0.violated != inv:
        raise vlib.ToolError("faithful switches expected to violate %s: %s" % (inv, r0.error or r0.violated))
    v.notes.append("MC: the faithful switches (try_send drop, barrier into every queue) violate %s at design level" % inv)
    v.checker_cmds.append("tlc ContextsMC.tla")
    cases = []
    for cap in (1, 2):
        L = 12
        r = tlc_cfg("_gen.cfg", base % (cap, "TRUE", "FALSE", L) + "INVARIANT Emit\nCONSTRAINT Stop\nCHECK_DEADLOCK FALSE\n", "ContextsMC", "gen%d" % cap, workers=4, timeout=900)
        if r.error or r.violated:
            raise vlib.ToolError("GEN: %s %s" % (r.error, r.violated))
        cs = extract_cases(r.stdout)
        v.add_tlc(r, "GEN cap=%d: %d schedules (exhaustive up to %d steps)" % (cap, len(cs), L))
        cases += cs
    if quick:
        sd = vlib.seed()
        cases = [c for i, c in enumerate(cases) if (i + sd) % max(1, len(cases) // 250) == 0]
    if len(cases) < 50:
        raise vlib.ToolError("GEN produced only %d schedules" % len(cases))
    cpath, rpath = os.path.join(w, "cases.ndjson"), os.path.join(w, "report.json")
    write_ndjson(cpath, cases)
    run_harness("vh", ["ctx-replay", cpath, rpath], timeout=3000)
    rep = load_report(rpath)
    v.add_report(rep)
    v.notes.append("%d schedules replayed on real ContextRuntimes; faithful-model mismatches %d; completed checkpoints observed %d" % (rep["total"], rep["counters"].get("model_mismatch", 0), rep["counters"].get("completed_checkpoints", 0)))
    if prop == "C27" and rep["counters"].get("completed_checkpoints", 0) == 0:
        raise vlib.ToolError("no completed checkpoint exercised: vacuous")
    if prop == "C27":
        # the coordinator's protocol (ids, pending, ack matching, several checkpoints): CkptCoord.tla on the real CheckpointCoordinator
        cbase = "CONSTANTS N = 3 Cap = %d MaxHist = %d MaxCkpt = %d RecordHist = TRUE\nINIT Init\nNEXT Next\n"
        r = need_ok(tlc_cfg("_cc.cfg", cbase % (1, 100, 3) + "VIEW StateView\nINVARIANT IdsFresh\nCONSTRAINT AckRoom\nCHECK_DEADLOCK FALSE\n", "CkptCoordMC", "ccmc", workers=4, timeout=900), "MC coordinator")
        v.add_tlc(r, "MC CkptCoord: completed checkpoint ids are fresh and increasing")
        r1 = tlc_cfg("_cc1.cfg", cbase % (1, 100, 2) + "VIEW StateView\nINVARIANT ConsistentCut\nCONSTRAINT AckRoom\nCHECK_DEADLOCK FALSE\n", "CkptCoordMC", "ccmc1", workers=4, timeout=900)
        if r1.violated != "ConsistentCut":
            raise vlib.ToolError("CkptCoord (faithful) expected to violate ConsistentCut: %s" % (r1.error or r1.violated))
        ccases = []
        for cap in (1, 2):
            L = 16
            r = tlc_cfg("_ccg.cfg", cbase % (cap, L, 3) + "INVARIANT Emit\nCONSTRAINT Stop\nCONSTRAINT AckRoom\nCHECK_DEADLOCK FALSE\n", "CkptCoordMC", "ccgen%d" % cap, workers=1, timeout=900,
                        simulate=(500 if quick else 8000), depth=L + 1, tlc_seed=vlib.seed() + cap)
            if r.error:
                raise vlib.ToolError("CkptCoord GEN: " + r.error)
            cs = extract_cases(r.stdout)
            v.add_tlc(r, "GEN CkptCoord cap=%d: %d schedules of %d steps" % (cap, len(cs), L))
            ccases += cs[:(700 if quick else 100000)]
        cp2, rp2 = os.path.join(w, "cc_cases.ndjson"), os.path.join(w, "cc_report.json")
        write_ndjson(cp2, ccases)
        run_harness("vh", ["ckcoord-replay", cp2, rp2], timeout=3000)
        rc = load_report(rp2)
        v.add_report(rc)
        v.notes.append("coordinator protocol: %d schedules on the real CheckpointCoordinator, %d completed checkpoints, %d model mismatches" % (rc["total"], rc["counters"].get("completed_checkpoints", 0), rc["counters"].get("model_mismatch", 0)))
    if prop == "C26":
        for n, shape in (((3000, "ident"), (600, "alias"), (600, "seq"), (600, "kleene")) if quick else ((3000, "ident"), (20000, "ident"), (50000, "ident"), (5000, "alias"), (5000, "seq"), (5000, "kleene"))):
            rp = os.path.join(w, "load_%d_%s.json" % (n, shape))
            run_harness("vh", ["ctx-load", rp, n, shape], timeout=3000)
            rl = load_report(rp)
            v.add_report(rl)
            v.notes.append("orchestrator burst of %d events (consumer shape %s) vs the same program without contexts: %d outputs compared" % (n, shape, rl["counters"].get("load_outputs", 0)))
    return v.finish()
