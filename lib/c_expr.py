"""C08, C09, C10, C11 — spec/expr/Expr.tla: transcription of the VPL evaluator, the constant folder and the SASE
predicate translation/evaluation over exact rationals; reference = mathematical order (C08), .where = step (C09),
Eval(Fold(e)) = Eval(e) (C10).  TLC enumerates every expression up to a size bound in every environment
(expression-builder idiom); each case is replayed into the real evaluator, folder, SaseEngine and Engine."""
import os
import vlib
from vlib import Verdict, run_tlc, need_ok, extract_cases, write_ndjson, run_harness, load_report, workdir

SPEC = os.path.join(vlib.SPEC, "expr")


def cfg(maxsize, mixed, leafset, invs, constraint=True):
    return "\n".join(["CONSTANTS MaxSize = %d MixedLeGe = %s LeafSet = \"%s\"" % (maxsize, mixed, leafset), "INIT Init", "NEXT Next"] +
                     (["CONSTRAINT Bound"] if constraint else []) + ["INVARIANT " + i for i in invs] + ["CHECK_DEADLOCK FALSE", ""])


def tlc_cfg(name, text, module, wname, **kw):
    path = os.path.join(SPEC, name)
    with open(path, "w") as f:
        f.write(text)
    try:
        return run_tlc(SPEC, module, name, wname, **kw)
    finally:
        os.remove(path)


def run(prop, replay=None):
    if prop == "C11":
        import c_expr_total
        return c_expr_total.run(prop, replay)
    quick = vlib.tier() != "thorough"
    v = Verdict(prop, "model_checking")
    v.rule = ("case = (expression tree built by the spec's Push/Un/Comb actions, environment); every reachable tree within the size bound, each in 4 environments; "
              "non-trivial = the real evaluator returned a value; distinct by hash of (expression, environment)")
    v.assumptions = ["floats are exact rationals in the spec; values compared with 1e-9 relative tolerance", "no user functions / bindings"]
    w = workdir("expr_" + prop)
    mixed = "TRUE"    # the evaluator after the C08 fix; the spec switch FALSE reproduces the unrepaired evaluator
    # ---- MC: design-level decision on the transcription ----
    if prop == "C08":
        r2 = tlc_cfg("_mc2.cfg", cfg(2, "FALSE", "cmp", ["CmpMath"]), "Expr", "mc2_" + prop, workers=8, timeout=600)
        if r2.violated != "CmpMath":
            raise vlib.ToolError("unrepaired switch does not violate CmpMath: %s" % (r2.error or r2.violated))
        v.notes.append("spec switch MixedLeGe=FALSE (evaluator before the fix) violates CmpMath at design level, as expected")
    elif prop == "C09":
        r = tlc_cfg("_mc.cfg", cfg(2, mixed, "small", ["SameFilter"]), "Expr", "mc_" + prop, workers=8, timeout=900)
        if r.violated != "SameFilter":
            raise vlib.ToolError("faithful transcription expected to violate SameFilter (recorded finding): %s" % (r.error or r.violated))
        v.add_tlc(r, "MC SameFilter on the faithful transcription: violated (recorded finding C09-where-vs-step-semantics)")
    else:
        r = tlc_cfg("_mc.cfg", cfg(2, mixed, "small", ["FoldSound"]), "Expr", "mc_" + prop, workers=8, timeout=900)
        if r.violated != "FoldSound":
            raise vlib.ToolError("faithful transcription expected to violate FoldSound (recorded finding): %s" % (r.error or r.violated))
        v.add_tlc(r, "MC FoldSound on the faithful transcription: violated (recorded finding C10-identity-rewrites)")
    v.checker_cmds.append("tlc -config <generated> Expr.tla")
    # ---- GEN: every expression of the bound, replayed ----
    leaf = {"C08": "cmp", "C09": "small" if quick else "full", "C10": "small" if quick else "full"}[prop]
    emit = {"C08": "EmitCmp", "C09": "EmitFilter", "C10": "Emit"}[prop]
    invs = [emit] + (["CmpMath", "GeConsistent"] if prop == "C08" else [])   # C08: MC of the repaired transcription in the same run
    r = tlc_cfg("_gen.cfg", cfg(2, mixed, leaf, invs), "ExprGen", "gen_" + prop, workers=8 if quick else 14, timeout=3000)
    if r.error or r.violated:
        raise vlib.ToolError("GEN: %s %s\n%s" % (r.error, r.violated, r.stdout[-1500:]))
    cases = extract_cases(r.stdout)
    if prop == "C08":
        cases = [c for c in cases if c["numcmp"]]
    elif prop == "C09":
        cases = [c for c in cases if c["isf"]]
    if len(cases) < 100:
        raise vlib.ToolError("GEN produced only %d cases" % len(cases))
    v.add_tlc(r, "GEN exhaustive MaxSize=2 leaves=%s" % leaf)
    v.exhaustive = True
    cpath, rpath = os.path.join(w, "cases.ndjson"), os.path.join(w, "report.json")
    write_ndjson(cpath, cases)
    every = (12 if quick else 1) if prop == "C08" else (60 if quick else 8)
    run_harness("vh", ["expr-replay", cpath, rpath, every], timeout=3000)
    rep = load_report(rpath)
    v.add_report(rep)
    c = rep["counters"]
    v.notes.append("%d cases replayed: model/impl evaluator mismatches %d, folder mismatches %d; %d numeric comparisons, %d filter cases, %d engine-level runs" % (
        rep["total"], c.get("model_eval_mismatch", 0), c.get("model_fold_mismatch", 0), c.get("numcmp_cases", 0), c.get("filter_cases", 0), c.get("engine_cases", 0)))
    if prop == "C08":
        # edges of the numeric domain: near-equal floats, 2^53 boundary, i64::MAX, infinities (CmpEdge.tla)
        r = run_tlc(SPEC, "CmpEdge", "CmpEdge.cfg", "edge_" + prop, workers=2, timeout=600)
        if r.error or r.violated:
            raise vlib.ToolError("CmpEdge: %s %s" % (r.error, r.violated))
        ec = extract_cases(r.stdout)
        v.add_tlc(r, "CmpEdge: %d symbolic operand pairs x operators" % len(ec))
        epath, erep = os.path.join(w, "edge.ndjson"), os.path.join(w, "edge_report.json")
        write_ndjson(epath, ec)
        run_harness("vh", ["cmp-edge", epath, erep], timeout=3000)
        v.add_report(load_report(erep))
    if not quick and prop in ("C09", "C10"):
        # depth-3 trees by simulation
        r = tlc_cfg("_gen3.cfg", cfg(3, mixed, "small", ["Emit"]), "ExprGen", "gen3_" + prop, workers=1, timeout=3000, simulate=4000, depth=7, tlc_seed=vlib.seed())
        cases = extract_cases(r.stdout)
        write_ndjson(cpath, cases)
        run_harness("vh", ["expr-replay", cpath, rpath, 20], timeout=3000)
        v.add_report(load_report(rpath))
        v.exhaustive = False
    return v.finish()
