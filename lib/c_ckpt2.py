"""C19 (checkpoint invisibility) and C20 (codec round trip)."""
import os
import vlib
from vlib import Verdict, run_tlc, need_ok, extract_cases, write_ndjson, run_harness, load_report, workdir

SPEC = os.path.join(vlib.SPEC, "checkpoint")


def tlc_cfg(name, text, module, wname, **kw):
    path = os.path.join(SPEC, name)
    with open(path, "w") as f:
        f.write(text)
    try:
        return run_tlc(SPEC, module, name, wname, **kw)
    finally:
        os.remove(path)


def run_c19(prop):
    quick = vlib.tier() != "thorough"
    v = Verdict(prop, "model_checking")
    v.rule = ("case = (program class of 17: count / sliding / tumbling / session windows plain and partitioned, sequences with references, Kleene, negation, join, "
              "distinct+limit, watermark + tumbling with external watermark advances; parameters; stream of events/watermarks); EVERY cut position of every stream is run; "
              "non-trivial = the uninterrupted run emits something; distinct by hash")
    v.assumptions = ["oracle = the uninterrupted run of the real engine on the same stream (the property is an equivalence of two executions)",
                     "JSON checkpoint format; whole-second event times"]
    w = workdir("ckequiv")
    # design level: two copies of the operator state side by side
    r = need_ok(tlc_cfg("_mc.cfg", 'CONSTANTS Kind = "count" D = 3 S = 1 MaxLen = 7 Faithful = TRUE\nINIT Init\nNEXT Next\nINVARIANT Invisible\nCHECK_DEADLOCK FALSE\n', "CkptEquiv", "mc", workers=4, timeout=600), "MC count window")
    v.add_tlc(r, "MC CkptEquiv count window: Invisible holds")
    r0 = tlc_cfg("_mc0.cfg", 'CONSTANTS Kind = "slidingcount" D = 3 S = 2 MaxLen = 7 Faithful = TRUE\nINIT Init\nNEXT Next\nINVARIANT Invisible\nCHECK_DEADLOCK FALSE\n', "CkptEquiv", "mc0", workers=4, timeout=600)
    if r0.violated != "Invisible":
        raise vlib.ToolError("faithful sliding-count restore expected to violate Invisible: %s" % (r0.error or r0.violated))
    v.notes.append("MC CkptEquiv sliding count window (faithful restore zeroes the slide counter): Invisible violated (recorded finding)")
    v.checker_cmds.append("tlc CkptEquiv.tla")
    r = tlc_cfg("_gen.cfg", "CONSTANTS MaxLen = %d Classes <- AllClasses\nINIT Init\nNEXT Next\nINVARIANT Emit\nCHECK_DEADLOCK FALSE\n" % (8 if quick else 10), "CkptCasesMC", "gen", workers=1, timeout=1800,
                simulate=(400 if quick else 1500), depth=(9 if quick else 11), tlc_seed=vlib.seed())
    if r.error:
        raise vlib.ToolError("GEN: " + r.error + r.stdout[-1000:])
    cases = extract_cases(r.stdout)
    if len(cases) < 100:
        raise vlib.ToolError("GEN produced only %d cases" % len(cases))
    if quick:
        # keep the classes balanced
        by = {}
        for c in cases:
            by.setdefault(c["cls"], []).append(c)
        cases = [c for k in sorted(by) for c in by[k][:(400 if k == "wm_tumbling" else 150)]]
    v.add_tlc(r, "GEN simulate: %d cases" % len(cases))
    cpath, rpath = os.path.join(w, "cases.ndjson"), os.path.join(w, "report.json")
    write_ndjson(cpath, cases)
    run_harness("vh", ["ckequiv-replay", cpath, rpath], timeout=7000)
    rep = load_report(rpath)
    v.add_report(rep)
    v.notes.append("%d streams, %d (stream, cut) pairs executed; per class: %s" % (rep["total"], rep["counters"].get("cuts", 0), {k[6:]: n for k, n in rep["counters"].items() if k.startswith("class_")}))
    return v.finish()


def run(prop, replay=None):
    if prop == "C19":
        return run_c19(prop)
    import c_codec
    return c_codec.run(prop, replay)
