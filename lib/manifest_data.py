"""Single source for MANIFEST.json (bin/mkmanifest)."""

HOOK_COMMITS = ["c99ebf6", "cda7a99", "673019b", "625d9ba", "1d37b76", "2f6eef4", "9ec354b"]
FIX_COMMITS = ["12c9092", "3e9b6da", "a55c868", "5489af8", "06cfd24", "dc51f1b", "72a27af", "81e61a6", "9f27a11", "fea871f", "23191e8", "7c321f5", "b21055a"]   # filled by bin/mkmanifest callers: /repo commits that add guarded hooks

NOTES = ("All checks: bin/check <id>. Exit 0 = held, 1 = VIOLATION line + replay file, 2 = tool error (never a verdict). "
         "Specs under spec/<family>/, harness under harness/ (path deps on /repo; rebuilt by every check). "
         "Known findings: known_findings.json; DESIGN.md section 7 lists which check catches which seeded change.")

ENGINES = [
    {"name": "tlc", "path": "/opt/veriftools/tla/tla2tools.jar", "serves_properties": [], "kind_free_text": "TLC model checker: design-level MC, behaviour generation (-simulate / exhaustive), trace validation"},
    {"name": "vhraft", "path": "/verif/harness/vhraft", "serves_properties": [], "kind_free_text": "Rust conformance harness for the raft-feature code (stores, state machine, single-node Raft coordinator); built with --features persistent for RocksStore"},
    {"name": "cli", "path": "/verif/harness/target/debug/varpulis", "serves_properties": [], "kind_free_text": "the real varpulis binary, built from /repo by the harness workspace (cargo build -p varpulis-cli --bin varpulis)"},
    {"name": "vh", "path": "/verif/harness/vh", "serves_properties": [], "kind_free_text": "Rust conformance harness: replays TLC behaviours into the real code and records traces for TLC"},
]

SASE_NOTE = ("Trusted: TLC, the Json/IOUtils community modules, the harness projection (alias ids, checkpoint() run projection, hook H5 for "
             "combination identity). Bounded: programs from the spec grammar, streams <= 11 events for generated cases, <= 60 for recorded ones.")

CHECKS = {
    "C01": dict(engine="tlc+vh", level="model_checking", ref="4.1", technique="TLA+ spec (Sase.tla) model-checked with TLC; TLC-generated behaviours replayed into SaseEngine/Engine; recorded traces validated by TLC against SaseTrace.tla",
                text="TLC proves the transcribed matcher sound w.r.t. the declarative Genuine() reference for all programs/streams in the bound; every replayed and recorded execution of the real matcher is checked by TLC for conformance to that model and for Genuine() on the recorded matches.",
                note=SASE_NOTE),
    "C02": dict(engine="tlc+vh", level="model_checking", ref="4.1", technique="TLA+ spec (Sase.tla: Expected/Exact) + TLC MC; generated behaviours replayed; traces validated by TLC",
                text="Exact (emitted = earliest completion per start, once) is a TLC invariant of the model over all streams in the bound and is evaluated by TLC on the recorded outputs of the real engine after every event.",
                note=SASE_NOTE),
    "C03": dict(engine="tlc+vh", level="model_checking", ref="4.1", technique="TLA+ spec (Sase.tla: ValidCombos/KleeneExact) + TLC MC; generated behaviours replayed with hook H5; traces validated by TLC",
                text="KleeneExact is model-checked; on recorded A B^n C executions TLC checks emitted combinations = admissible ones (subset + count under the caps), pairwise distinct.",
                note=SASE_NOTE),
    "C05": dict(engine="tlc+vh", level="model_checking", ref="4.1", technique="TLA+ spec (Sase.tla: Bounded) + TLC MC over all backpressure strategies; generated behaviours replayed; traces validated by TLC",
                text="Bounded is model-checked for max_runs 1,2,100 x 3 strategies x Kleene caps; per-partition run counts, Kleene lengths (via checkpoint()) and enumeration sizes of the real engine are checked by TLC at every recorded step; panics are recorded as events.",
                note=SASE_NOTE),
}

WIN_NOTE = ("Trusted: TLC, the harness projection (ids of emitted windows, buffer via the public checkpoint()). Bounded: sizes/gaps/slides 1..5, "
            "<= 10 arrivals generated, <= 120 recorded; engine-level runs observe count/sum/first/last of consecutive ids.")
CHECKS["C12"] = dict(engine="tlc+vh", level="model_checking", ref="4.5", technique="TLA+ spec (Window.tla) model-checked with TLC; TLC behaviours replayed into the window structs and engine programs; recorded emissions validated by TLC (WindowTrace.tla)",
                     text="ExactlyOnce/CountSize/TumblingSpan/SessionGaps are TLC invariants of the transcribed windows for all arrival+watermark sequences in the bound; every replayed/recorded execution of the real structs is checked by TLC for conformance and for the same invariants on the recorded emissions and buffers.",
                     note=WIN_NOTE)
CHECKS["C13"] = dict(engine="tlc+vh", level="model_checking", ref="4.5", technique="TLA+ spec (Window.tla) model-checked with TLC; TLC behaviours replayed into sliding windows and engine programs; recorded emissions validated by TLC",
                     text="SlidingContent/SlidingTiming/SlidingCountShape/SlidingCountTiming are TLC invariants of the model and are evaluated by TLC on every recorded emission of the real sliding windows.",
                     note=WIN_NOTE)

EXPR_NOTE = ("Trusted: TLC; the transcription Expr.tla is itself validated against the code on every case (model/impl mismatch counters in evidence). "
             "Bounded: every expression with <= 2 leaves (+ unary wrappers) over the spec's leaf alphabet in 4 environments (thorough adds sampled 3-leaf trees).")
CHECKS["C08"] = dict(engine="tlc+vh", level="model_checking", ref="4.4", technique="TLA+ spec (Expr.tla) with TLC invariant CmpMath/GeConsistent over an exhaustive expression builder; every case replayed into the evaluator, eval_binary_op and Engine (.where/.emit/sequence step)",
                     text="TLC decides the transcribed comparison arms against the mathematical order for every operand pair in the bound; each enumerated comparison is executed by the real evaluator in four contexts and must equal the mathematical verdict.",
                     note=EXPR_NOTE)
CHECKS["C09"] = dict(engine="tlc+vh", level="model_checking", ref="4.4", technique="TLA+ spec (Expr.tla: AcceptWhere vs AcceptStep) enumerated by TLC; every filter case replayed as .where verdict and as a SaseEngine step; error-delta against the faithful transcription",
                     text="TLC enumerates every filter expression of the bound; the real .where and step verdicts must agree except where the faithful transcription predicts exactly the recorded finding; any unpredicted disagreement is a violation.",
                     note=EXPR_NOTE)
CHECKS["C10"] = dict(engine="tlc+vh", level="model_checking", ref="4.4", technique="TLA+ spec (Expr.tla: Fold/FoldSound) enumerated by TLC; every case folded by optimize::fold_program and evaluated before/after, plus parse()->Engine end to end; error-delta against the faithful transcription",
                     text="Every expression of the bound is evaluated unfolded and folded by the real code; differences must be exactly those the transcribed folder predicts (recorded finding), anything else is a violation.",
                     note=EXPR_NOTE)

CHECKS["C11"] = dict(engine="tlc+vh", level="exploration", ref="4.4", technique="TLA+ spec (ExprTot.tla) enumerates with TLC every operator/built-in over every tuple of boundary values; each case executed by the real evaluator and Engine under catch_unwind",
                     text="The decisive observation (no panic) is made on the implementation; the specification defines the input space exhaustively (operators x boundary-value tuples) and flags the cases whose exact arithmetic leaves i64, so reaching them is measured.",
                     note="Trusted: harness catch_unwind; dev profile with overflow checks. Bounded: depth-1 expressions over 31 boundary leaves (third arguments from 10 leaves); range() with huge sizes excluded as the property says.")
ZDD_NOTE = ("Trusted: TLC, hook H7 (node dump). Bounded: families over 3 variables: all 65 536 pairs model-checked, every pair (thorough) or a seed-dependent third (quick) replayed; "
            "register-machine histories of <= 10 operations on 3 registers.")
CHECKS["C06"] = dict(engine="tlc+vh", level="model_checking", ref="4.3", technique="TLA+ spec (Zdd.tla): TLC checks the transcribed arena algorithms against explicit set-family algebra on all pairs; pairs and register-machine behaviours replayed into ZddArena and Zdd",
                     text="Exhaustive at 3 variables for the algorithm transcription; every replayed result (iter, count, cached count, contains) of both ZDD forms must equal the reference family, also after gc.",
                     note=ZDD_NOTE)
CHECKS["C07"] = dict(engine="tlc+vh", level="model_checking", ref="4.3", technique="TLA+ spec (Zdd.tla register machine) behaviours generated by TLC and replayed on one real arena; canonicity, reducedness/ordering (hook H7), gc and iteration checked after every step",
                     text="For every generated history the real arena must give equal roots exactly for equal families, keep every node reduced and ordered, preserve live families across gc and iterate each set once in ascending order.",
                     note=ZDD_NOTE)

COORD_NOTE = ("Trusted: TLC, the harness projection of the public Coordinator fields. Bounded: 2 workers, 2 groups (2+1 pipelines); every transition of the sequential state graph "
              "(thousands of histories) plus interleaved-phase histories of <= 12 calls plus random call soups of <= 24 calls. HTTP execute phases, drain/failover/rebalance monoliths not driven.")
CHECKS["C32"] = dict(engine="tlc+vh", level="model_checking", ref="4.19", technique="TLA+ spec (Coordinator.tla) model-checked with TLC; transition-coverage and interleaved histories generated by TLC and executed on the real Coordinator; recorded states validated by TLC (CoordTrace.tla: conformance + discrepancy-set containment)",
                     text="TLC shows the bookkeeping invariant for sequential use and its violation under interleaving (recorded finding); every recorded call of the real coordinator must leave exactly the state, and in particular no bookkeeping discrepancy other than those, the faithful model predicts.",
                     note=COORD_NOTE)
CHECKS["C33"] = dict(engine="tlc+vh", level="model_checking", ref="4.19", technique="TLA+ spec (Coordinator.tla: Avail / SweepSet / Heartbeat) ; recorded planner choices, sweep results and heartbeat effects of the real Coordinator validated by TLC (CoordTrace.tla invariant RC33)",
                     text="On every recorded plan the chosen workers must be available in the recorded pre-state and equal the pinned worker when that is available; every recorded sweep must mark exactly the ready workers whose heartbeat is older than the timeout; a heartbeat must make an unhealthy worker ready.",
                     note=COORD_NOTE)

DISP_NOTE = ("Trusted: TLC, hook H6 (handed log). Bounded: every program of <= 2 streams and sampled 3-stream programs from a 9-stream pool, inputs <= 4 events over 2 types x 2 values, "
             "every batch split, every additive-load point. No joins/timers/connectors.")
CHECKS["C16"] = dict(engine="tlc+vh", level="model_checking", ref="4.8", technique="TLA+ spec (Dispatch.tla) of the dispatch loops evaluated by TLC on every program/input/split of the bound; each case replayed through process, process_batch, process_batch_sync; error-delta against the faithful model",
                     text="TLC decides path equality on the faithful queue machine (violated: recorded findings); the real engine's three output sequences must equal each other except exactly where, and how, the faithful model predicts.",
                     note=DISP_NOTE)
CHECKS["C17"] = dict(engine="tlc+vh", level="model_checking", ref="4.8", technique="TLA+ spec (Dispatch.tla: handed pairs) evaluated by TLC; hook H6 records every (stream, event) pair handed to a pipeline on all three paths, incl. streams loaded after traffic; compared with the routing reference",
                     text="For every case the multiset of (stream, event) pairs handed to pipelines by the real engine must equal the routing reference of the model (each routed event once per consuming stream, none elsewhere) on every path.",
                     note=DISP_NOTE)

CHECKS["C24"] = dict(engine="tlc+vh", level="model_checking", ref="4.13", technique="TLA+ spec (Watermark.tla) model-checked with TLC; behaviours replayed into PerSourceWatermarkTracker and an Engine with watermark/lateness streams; recorded watermarks and drop decisions validated by TLC (WatermarkTrace.tla)",
                     text="Monotone / EffIsMin / LateOnlyIfBelow are TLC invariants over all observe/advance sequences in the bound and are evaluated by TLC on the per-source watermarks, effective watermark and drop decisions recorded from the real tracker and engine.",
                     note="Trusted: TLC, create_checkpoint() as the observation of the engine's tracker. Bounded: 3 sources, out-of-orderness 0/1/2 s, lateness 1 s, <= 10 generated / 100 recorded calls.")

CHECKS["C15"] = dict(engine="tlc+vh", level="model_checking", ref="4.7", technique="TLA+ spec (Join.tla) three-valued reference; TLC-generated arrival sequences (dense and window-boundary steps, in-order and disordered) replayed into JoinBuffer and an engine join; recorded outputs validated by TLC (JoinTrace.tla)",
                     text="For every recorded arrival TLC evaluates the reference on the recorded stream: no spurious output, the required pick per source, and an output wherever the statement requires one on in-order streams; missing outputs after disorder are the recorded finding.",
                     note="Trusted: TLC. Bounded: 2 sources, 2 keys, 50 ms time unit, window 1 s, <= 16 arrivals. Entries later than the arriving event: either.")

MISC_NOTE = "Trusted: TLC as enumerator of the bounded input space; the harness rendering of symbolic shapes/forms to concrete values/text."
CHECKS["C40"] = dict(engine="tlc+vh", level="model_checking", ref="4.21", technique="TLA+ spec (ValueEq.tla) enumerates with TLC every ordered triple of 41 value shapes (incl. maps with differing key sets whose odd key holds Null) with their reference classes; equivalence laws and hash consistency checked on the real Value for each",
                     text="Finite domain, exhaustive: reflexivity, symmetry, transitivity and equal=>same hash are evaluated on all 39 304 triples, and values the documented semantics identify (NaN, -0.0, permuted maps) must be equal.", note=MISC_NOTE)
CHECKS["C42"] = dict(engine="tlc+vh", level="model_checking", ref="4.21", technique="TLA+ spec (ForExpand.tla) defines Expand recursively; TLC enumerates every program of the grammar with its expansion; looped source and hand-expanded source are parsed by the real parser and compared",
                     text="For all 2 096 programs of the grammar (nested loops, inclusive/exclusive/empty ranges, multi-declaration bodies) the parsed program equals the parse of the spec's expansion.", note=MISC_NOTE)
CHECKS["C46"] = dict(engine="tlc+vh", level="model_checking", ref="4.21", technique="TLA+ spec (EventFile.tla) enumerates with TLC every file of <= 3 (4) lines over 15 line forms with its reference meaning; both real readers run on each and are compared",
                     text="Exhaustive over the bounded file space: the two readers must produce the same event sequence (types and field values) or both reject.", note=MISC_NOTE)

CHECKS["C21"] = dict(engine="tlc+vh", level="model_checking", ref="4.10", technique="TLA+ spec (CkptStore.tla) model-checked with TLC (crash between any two file-system steps, corruption, restart); crash schedules from CkptGen.tla executed on the real FileStore/CheckpointManager under a crashing store wrapper; recorded observations validated by TLC (CkptTrace.tla)",
                     text="Design: all five invariants hold on the fallback design and the no-fallback switch violates one. Implementation: every (retention, history, crash phase, corruption) combination of the bound is executed and TLC checks newest-complete recovery, fallback, retention bound and id monotonicity on what was observed.",
                     note="Trusted: the store wrapper's emulation of partial FileStore::put / prune effects. Bounded: retention 1..3, <= 9 checkpoints, 8 crash phases, truncation as the corruption.")

CHECKS["C19"] = dict(engine="tlc+vh", level="model_checking", ref="4.10", technique="TLA+ spec (CkptEquiv.tla) two-copy model checked by TLC for the count-based windows; CkptCases.tla generates (program class, stream) cases; every cut of every stream executed on the real engine (checkpoint -> JSON -> fresh engine -> restore) against the uninterrupted run",
                     text="Design level: TLC shows invisibility for the count window and its violation for the faithful sliding-count restore. Implementation: 16 program classes x generated streams x EVERY cut position; any class other than the three recorded ones must be cut-invariant.",
                     note="Oracle = the real engine's uninterrupted run (differential). Bounded: streams <= 11 events/watermarks, parameters 1..3. Findings are attributed per program class.")
CHECKS["C20"] = dict(engine="tlc+vh", level="exploration", ref="4.10", technique="TLA+ spec (ValueCodec.tla) enumerates with TLC every (checkpoint section, value shape, time precision); each case round-trips a real engine checkpoint through the codec and a restore",
                     text="The specification defines the value/section space exhaustively and which shapes JSON can carry; identity of the checkpoint and of the restored events is checked on the real code for all 224 combinations.",
                     note="Trusted: Debug rendering as the equality of checkpoints. JSON format only (binary-codec feature is off in the default build).")

CHECKS["C14"] = dict(engine="tlc+vh", level="exploration", ref="4.6", technique="TLA+ spec (Aggregate.tla) computes exact rational references with TLC for every batch of the bound; each batch run through the row, shared-event and columnar paths of the real Aggregator",
                     text="The oracle lives in the specification (exact rationals, sanity-checked by TLC); the implementation is compared within float tolerances on all 39 216 (thorough 274 514) batches including a 10^9 offset variant, and the three paths must agree on every cell.",
                     note="Trusted: float tolerances (1e-9 relative, variance 1e-6). Cells the documentation leaves open (NaN in stddev/ema/first/last/distinct, strings in distinct) are only checked for path agreement.")

CHECKS["C30"] = dict(engine="tlc+vh", level="model_checking", ref="4.17", technique="TLA+ spec (RateLimit.tla) model-checked with TLC for every accepted configuration; histories replayed into the real RateLimiter on a virtual clock (hook H8); recorded verdicts validated by TLC (RateLimitTrace.tla: interval bound per tracking epoch, finiteness, no panic)",
                     text="Bound is a TLC invariant over all tick/request sequences of the bound; on recorded executions TLC evaluates the same interval bound on the REAL admissions (with the model's tracking epochs), checks that no call panicked and that rejections carry a retry-after.",
                     note="Trusted: hook H8 shadows Instant::now() in TokenBucket. Bounded: 2 clients, capacity 1..2, rate 0..4, burst 0..5, <= 60 operations, ms-granular times incl. idle periods of seconds.")

CHECKS["C45"] = dict(engine="tlc+vh", level="model_checking", ref="4.17b", technique="TLA+ spec (Breaker.tla) model-checked with TLC over all interleavings of 3 senders; schedules replayed on a real ResilientSink + DeadLetterQueue with a gated inner sink and virtual clock (hook H2); recorded admissions, deliveries and DLQ lines validated by TLC (BreakerTrace.tla)",
                     text="NoLoss / OpensExactly / OneProbe are TLC invariants of the design; on every replayed schedule TLC checks the breaker contract on the RECORDED admissions (opens after exactly the threshold, rejects until the timeout, one probe while half-open) and that every handed event is delivered or dead-lettered once as a readable entry naming sink and error.",
                     note="Trusted: hook H2, the gate-based realisation of interleavings. Bounded: 3 senders, thresholds 1..3, timeouts 1..2 ticks, schedules of <= 14 steps.")

CHECKS["C25"] = dict(engine="tlc+vh", level="model_checking", ref="4.14", technique="TLA+ spec (Trend.tla): brute-force reference (cross-checked with a DP form by TLC) + faithful transcription of the Hamlet aggregator; TLC enumerates every type sequence of the bound for 7 query sets; each replayed into the real HamletAggregator (alone, shared, and as a second window on a reused aggregator); error-delta",
                     text="Both sentences of the property are decided by error-delta: the real values must equal the reference, or equal exactly what the faithful transcription predicts (recorded findings); second windows on a reused aggregator must equal the same stream on a fresh one.",
                     note="Trusted: TLC. Bounded: sequences over {A,B,C} up to length 5 (thorough 8), 4 single queries and 3 pairs, aggregator API level.")

CTX_NOTE = ("Trusted: TLC; the fence technique (an acknowledged barrier with a reserved id proves the earlier message was processed). Bounded: 2 contexts, 3 inputs, queue capacity 1..2, "
            "every schedule of the faithful model up to 12 steps (quick: a seed-dependent ~250 of them).")
CHECKS["C26"] = dict(engine="tlc+vh", level="model_checking", ref="4.15", technique="TLA+ spec (Contexts.tla) model-checked with TLC (ideal vs faithful switches); every TLC schedule replayed deterministically on real ContextRuntimes whose channels the harness owns; error-delta on the lost-event set; plus the real ContextOrchestrator under a burst against the context-free engine",
                     text="Delivered holds on the blocking design and fails on the faithful try_send model (recorded finding); on the real runtimes each schedule must lose exactly the events the faithful model predicts and nothing else; per-stream output sequences of a burst through the orchestrator must equal the context-free run.",
                     note=CTX_NOTE)
CHECKS["C27"] = dict(engine="tlc+vh", level="model_checking", ref="4.15", technique="TLA+ spec (Contexts.tla: ConsistentCut) model-checked with TLC; schedules with a coordinated checkpoint replayed on real ContextRuntimes; snapshot positions from the real CheckpointAcks compared with the faithful model (error-delta)",
                     text="ConsistentCut holds with aligned barriers and fails with barriers injected into every queue (recorded finding); every replayed schedule's real snapshot positions (events_processed of each acknowledged engine checkpoint) must be those the faithful model predicts.",
                     note=CTX_NOTE)

CHECKS["C31"] = dict(engine="tlc+vh", level="model_checking", ref="4.18", technique="TLA+ spec (PathFs.tla): POSIX-like tree with symlinks and Resolve; TLC enumerates every request of the bound with its resolution; each request run through the real validate_path on a materialised tree",
                     text="Exhaustive over the bounded request space (12 348 requests at 3 segments): an accepted path must canonicalise component-wise inside the work directory, exactly where the spec's Resolve says it is inside.",
                     note="Trusted: the tree materialisation. Bounded: one tree (7 symlinks in/out, absolute/relative targets, sibling directory with a name-prefix relation), requests <= 3 (4) segments. Non-UTF-8 names are not generated.")

CHECKS["C34"] = dict(engine="tlc+vh", level="model_checking", ref="4.19", technique="TLA+ spec (InjectRouting.tla): first-match reference enumerated by TLC over every route table of the bound; every (type, key) injected singly (resolve_inject_target) and as one batch (inject_batch -> loopback mock worker) on a real Coordinator",
                     text="Exhaustive over route tables (686 at 2 routes): single and batch targets must equal the first-match reference; with key-hash one replica per (pipeline, key value) across single and batch injections; with round-robin replica loads within one.",
                     note="Trusted: the mock worker's record of what reached each replica. Bounded: 5 patterns (exact/prefix/catch-all, overlapping), 4 event types, 5 key shapes, 2 pipelines with 3 and 2 replicas.")

CHECKS["C22"] = dict(engine="tlc+vh", level="model_checking", ref="4.11", technique="TLA+ spec (TenantStore.tla) generates management histories with the abstract acknowledged state after each step; each history executed on a real TenantManager over a store that dies at the k-th write for EVERY k; recovery compared with the model's acknowledged / in-flight states",
                     text="Fault enumeration driven by the specification: for every generated history and every store-write crash point the recovered tenants, API keys and pipelines (names, sources) must equal the model's last acknowledged state or that state plus the one in-flight operation; without a crash the live manager must equal the model after every operation.",
                     note="Trusted: the crashing StateStore wrapper (write-granular). Bounded: 2 tenants x 2 pipelines x 4 program shapes (incl. .distinct(), .limit(), sequences), histories of 5 (7) operations.")

CHECKS["C28"] = dict(engine="tlc+vh", level="model_checking", ref="4.16", technique="TLA+ spec (TenantApi.tla): isolation reference (TLC checks the action property Isolation on it) enumerating request sequences; each sequence run through the real REST routes with warp::test; response classes and every tenant's state compared",
                     text="The reference acts only on the authenticated tenant's entry (checked by TLC); the real API must serve / refuse each request like the reference (status details the property does not fix are left open) and leave every other tenant's pipeline, usage counter and source exactly as the reference says.",
                     note="Trusted: warp::test drives the same filters the server mounts. Bounded: 3 tenants (two keys differing only in case), 10 endpoints, 5 credentials, sequences of 1..2 requests.")

CHECKS["C29"] = dict(engine="tlc+vh", level="model_checking", ref="4.16", technique="TLA+ spec (Rbac.tla): endpoint/role table and credential/configuration semantics; TLC enumerates the full finite matrix (and checks the table's monotonicity); every cell executed against the real cluster routes via warp::test with a state digest before/after; 2048 blind wrong keys",
                     text="Exhaustive finite matrix: each of 702 (configuration, credential, endpoint) cells must be served exactly when the reference grants the role, rejected requests must leave workers, groups, connectors and migrations unchanged; near-miss keys (transposition, compensating bit flips) and 2048 arbitrary wrong keys must be rejected.",
                     note="Trusted: warp::test and the public handle_rejection the server installs. Bounded: 26 cluster endpoints of the default build; Raft RPC routes need the raft feature and are covered with C35-C38's harness when built.")

CHECKS["C23"] = dict(engine="tlc+vh", level="exploration", ref="4.12", technique="TLA+ spec (Reload.tla): reload as a function on abstract engine state (unchanged streams keep state, changed streams become fresh); TLC generates (edit class, event stream, reload position) cases over 26 edit classes; each replayed on the real Engine::reload and compared with a never-reloaded twin (identity / untouched streams) or a fresh engine of the new program on the suffix (changed streams)",
                     text="Differential against real engines: for identity reloads and for streams an edit does not touch, the outputs after the reload point equal those of an engine that was never reloaded; for changed or renamed streams they equal those of a freshly loaded engine of the new program fed only the later events. Covers count/sliding/tumbling/partitioned windows, filters, sequences, Kleene, joins, merges, derived streams; threshold, window size, emit, added/removed operations, added sequence steps, merge inputs, renames.",
                     note="Trusted: the two oracle engines (the property is an equivalence of executions). Bounded: 26 hand-written edit classes, streams of 8 (thorough 11) events over 3 types, one reload per run.")

CHECKS["C39"] = dict(engine="tlc+vh", level="model_checking", ref="4.19", technique="TLA+ spec (ConnInject.tla): character-level model of to_vpl_declaration's rendering and of the grammar's config_value lexer; TLC checks Lex(Emit(v)) = v against a closed form on every value over a 16-character alphabet and emits each (value, pipeline template) as a case; every case goes through the real to_vpl_declaration, inject_connectors, parser and Engine::load",
                     text="Exhaustive over values up to length 3 (thorough 4) plus a 52-word list (inf/nan/exponents/leading zeros/i64 and u64 boundaries/unicode/quotes/backslashes), in 8 pipeline templates (from, to, both, inline-declared, unknown connector, reference only in a comment, rich program, client_id_mode). Checked: the injected source parses; each injected declaration has exactly the stored parameters (AST and the runtime's ConnectorConfig); every used, stored, undeclared connector is injected; inline declarations and all other statements are unchanged.",
                     note="Trusted: the parser and the AST's serde form (spans stripped) as the meaning of 'the rest of the pipeline'. Bounded: parameter names are plain identifiers; two connectors.")

CHECKS["C44"] = dict(engine="tlc+vh", level="model_checking", ref="4.19", technique="TLA+ spec (RestJson.tla): symbolic JSON terms with the API's in/out value maps (ideal and faithful variants model-checked for the round-trip law); every enumerated term sent through the real inject and inject-batch routes (warp::test on api_routes) into pipelines that emit the value, its type_of and a pipeline-built array; responses compared with strict JSON equality (integers by value, floats by bits)",
                     text="Exhaustive over 30 leaf classes (i64/u64/2^53 boundaries, -0.0, subnormal, 1e300, integral floats, empty/unicode/escaped/NUL strings, booleans, null) and all arrays (width 2, thorough 3) and objects (2 keys) of leaves, top-level and nested one level deeper by the request, through 3 route/pipeline combinations: the value and the type the pipeline sees must equal the JSON sent.",
                     note="Trusted: serde_json for parsing the harness's own request text and the response; warp::test. Bounded: nesting depth 2 (value inside a request array), finite representatives per class.")

CHECKS["C04"] = dict(engine="tlc+vh", level="model_checking", ref="4.3", technique="TLA+ spec (Partition.tla): key-table operator vs declarative per-key reference model-checked with TLC (faulty shared-buffer and colliding-key variants must be rejected); TLC-generated (operator class, key type, interleaved stream) cases (PartGen.tla) replayed on the real engine as a differential: whole partitioned run vs union of runs on each key's sub-sequence",
                     text="Differential on the real engine over 11 operator classes (count, sliding count, tumbling, sliding, session windows, running aggregate, having, 2/3-step sequences with cross-alias predicates, Kleene) x 3 key types (strings, integers, look-alike numeric strings) x interleavings of up to 3 keys plus events without the key field: the multiset of outputs equals the union of the per-key runs.",
                     note="Trusted: the per-key runs of the same engine as reference (as the property is stated). Bounded: streams of 10 (thorough 13) events; .not clauses excluded because C01 defines them as stream-global.")

CHECKS["C18"] = dict(engine="tlc+cli", level="exploration", ref="4.9", technique="TLA+ spec (ParSim.tla): design model of run_simulation's multi-worker branches (hash distribution for every hash function, chunking) model-checked for output-bag equality, with faulty distributions rejected; TLC-generated (pipeline class, key kind, mode, worker count, interleaved stream) cases (ParGen.tla) run through the real `varpulis simulate` binary with 1 and N workers, auto-selected and explicit --partition-by",
                     text="The binary built from /repo is run on every generated case with -w 1 and -w N (2..8), preload and streaming; the listed output events (guarded for completeness by the engines' own emitted counter from a --quiet run) must be the same multiset. 9 pipeline classes: stateless filter, derived chain, two streams, partitioned count / sliding-count windows, running aggregate, 2-step sequences (with cross-alias predicate), Kleene.",
                     note="Trusted: the binary's 'Output Events Summary' as the observation of its outputs. Bounded: 40 walks (thorough 600) x streams of 12 (16) events over 4 keys; all events carry the key; time windows excluded (immediate mode has no event time).")

CHECKS["C35"] = dict(engine="tlc+vhraft", level="model_checking", ref="4.20", technique="TLA+ specs RaftSM.tla (apply_command transcribed; batching independence and snapshot equivalence model-checked for every log) and RaftLog.tla (storage contract: append / conflict deletion / purge / vote, with the faithful 'purge forgets last id' switch rejected); TLC-generated logs with cut and snapshot positions and every storage-call history replayed through the RaftStorage calls of the real MemStore and RocksStore, plus openraft::testing::Suite on each store",
                     text="For every generated command log (all 16 command kinds): applying entry by entry, in two batches, and via snapshot-at-i + rest gives the same canonical state, equal to the specification's fold; for every history of storage calls the observations (last log id, purge point, vote, entries in order) equal the contract's reference after every call; the library's own storage suite passes.",
                     note="Trusted: openraft's Suite as the statement of its contract. Bounded: logs of 8 (12) commands over 2 workers / 2 groups; storage histories of 5 (6) calls on 4 indices.")
CHECKS["C36"] = dict(engine="tlc+vhraft", level="model_checking", ref="4.20", technique="TLA+ spec RocksRecovery.tla: the persistent store at the grain of its RocksDB writes, a crash cutting any storage call after any number of writes, reopen; ideal (snapshot-first) and faithful (log replay only) recovery model-checked; TLC-generated histories replayed on the real RocksStore in temp dirs with crash points before every write (hook H9) and reopened with open_with_shared_state",
                     text="After every reopen the vote, the log entries, the purge point and the applied position equal what was persisted before the crash, and the recovered state machine must equal the commands 1..applied; a deviation is attributed to the recorded finding only when it equals the faithful model's prediction for that history.",
                     note="Trusted: RocksDB durability of completed puts (WAL). Bounded: 3 log positions, histories of 7 (8) calls, one store. Needs the persistent feature (RocksDB from source).")

CHECKS["C38"] = dict(engine="tlc+vhraft", level="model_checking", ref="4.20", technique="TLA+ spec CoordSync.tla: local view vs replicated state with each operation's replicated ClusterCommands transcribed from the handlers and the health loop, sync_from_raft transcribed; ideal (every change replicated) and faithful variants model-checked for InSync; TLC-generated operation histories executed through the real REST handlers (warp::test on cluster_routes) of a real single-node Raft coordinator with a loopback mock worker, comparing the coordinator's view before and after sync_from_raft after every operation",
                     text="After every acknowledged operation (register, deregister, heartbeat, deploy, group removal, connector create/update/delete) and every sweep with failover, sync_from_raft must not change the coordinator's projected view; a reverted field is attributed to a recorded finding only when the set of reverted fields and the resulting view equal the faithful model's prediction for that history.",
                     note="Trusted: the mock worker's 2xx answers. Bounded: 2 workers, one group with one pipeline, one connector; histories of 40 (60) operations on 14 (150) fresh single-node Raft clusters; drain / manual migrate / rebalance not driven; the CLI's loop body is mirrored, not executed.")

CHECKS["C37"] = dict(engine="tlc+vhraft", level="exploration", ref="4.20", technique="TLA+ specs ReplModel.tla (leader-based log replication with terms: Agreement, Durable, OneLeaderPerTerm model-checked for 3 nodes; the variant without the vote check is rejected) and ReplLog.tla (trace specification with an inferred global log); traces recorded from a real in-process 3-node cluster (real openraft, real varpulis stores, state machine and HTTP transport) under seeded faults - inbound cut / drop / delay per node, heal, crash and restart on RocksDB - with per-position state digests from hook H10, validated by TLC",
                     text="Every recorded apply (node, position, term, state digest) must agree with the first report of that position (same term, same state); positions never go backwards within an incarnation; after healing and quiescence every acknowledged write is in every node's state, and nodes at the same position hold the same commands.",
                     note="Randomised scenarios: 4 (thorough 40) of 30 (60) steps, half on in-memory and half on persistent storage. Faults are per target node, not per direction. Election timeouts of 1.5-3 s are hard-coded, one scenario costs ~15 s.")

NOT_APPLICABLE = {
    "C41": "parser totality over arbitrary strings: no state/transition system to specify; a TLA+ model would only enumerate token strings (fuzzing under another name)",
    "C43": "LSP handler robustness over arbitrary text/cursor: per-call robustness, no protocol state in the property; outside model-based verification",
}
for _p in ["C%02d" % i for i in range(1, 47)]:
    if _p not in CHECKS and _p not in NOT_APPLICABLE:
        NOT_APPLICABLE[_p] = "check designed in DESIGN.md section 4 but not yet built in this round; not claimed until its command exists"
