"""Single source for MANIFEST.json (bin/mkmanifest)."""

HOOK_COMMITS = ["673019b", "625d9ba"]
FIX_COMMITS = ["12c9092", "3e9b6da"]   # filled by bin/mkmanifest callers: /repo commits that add guarded hooks

NOTES = ("All checks: bin/check <id>. Exit 0 = held, 1 = VIOLATION line + replay file, 2 = tool error (never a verdict). "
         "Specs under spec/<family>/, harness under harness/ (path deps on /repo; rebuilt by every check). "
         "Known findings: known_findings.json; DESIGN.md section 7 lists which check catches which seeded change.")

ENGINES = [
    {"name": "tlc", "path": "/opt/veriftools/tla/tla2tools.jar", "serves_properties": [], "kind_free_text": "TLC model checker: design-level MC, behaviour generation (-simulate / exhaustive), trace validation"},
    {"name": "vh", "path": "/verif/harness/vh", "serves_properties": [], "kind_free_text": "Rust conformance harness: replays TLC behaviours into the real code and records traces for TLC"},
]

SASE_NOTE = ("Trusted: TLC, the Json/IOUtils community modules, the harness projection (alias ids, checkpoint() run projection, hook H5 for "
             "combination identity). Bounded: programs from the spec grammar, streams <= 11 events for generated cases, <= 60 for recorded ones.")

CHECKS = {
    "C01": dict(engine="tlc+vh", level="model_checking", ref="4.1", technique="TLA+ spec (Sase.tla) model-checked with TLC; TLC-generated behaviours replayed into SaseEngine/Engine; recorded traces validated by TLC against SaseTrace.tla",
                text="TLC proves the transcribed matcher sound w.r.t. the declarative Genuine() reference for all programs/streams in the bound; every replayed and recorded execution of the real matcher is checked by TLC for conformance to that model and for Genuine() on the recorded matches.",
                note=SASE_NOTE),
    "C02": dict(engine="tlc+vh", level="model_checking", ref="4.1", technique="TLA+ spec (Sase.tla: Expected/Exact) + TLC MC; generated behaviours replayed; traces validated by TLC",
                text="Exact (emitted = earliest completion per start, once) is a TLC invariant of the model over all streams in the bound and is evaluated by TLC on the recorded outputs of the real engine after every event.",
                note=SASE_NOTE),
    "C03": dict(engine="tlc+vh", level="model_checking", ref="4.1", technique="TLA+ spec (Sase.tla: ValidCombos/KleeneExact) + TLC MC; generated behaviours replayed with hook H5; traces validated by TLC",
                text="KleeneExact is model-checked; on recorded A B^n C executions TLC checks emitted combinations = admissible ones (subset + count under the caps), pairwise distinct.",
                note=SASE_NOTE),
    "C05": dict(engine="tlc+vh", level="model_checking", ref="4.1", technique="TLA+ spec (Sase.tla: Bounded) + TLC MC over all backpressure strategies; generated behaviours replayed; traces validated by TLC",
                text="Bounded is model-checked for max_runs 1,2,100 x 3 strategies x Kleene caps; per-partition run counts, Kleene lengths (via checkpoint()) and enumeration sizes of the real engine are checked by TLC at every recorded step; panics are recorded as events.",
                note=SASE_NOTE),
}

WIN_NOTE = ("Trusted: TLC, the harness projection (ids of emitted windows, buffer via the public checkpoint()). Bounded: sizes/gaps/slides 1..5, "
            "<= 10 arrivals generated, <= 120 recorded; engine-level runs observe count/sum/first/last of consecutive ids.")
CHECKS["C12"] = dict(engine="tlc+vh", level="model_checking", ref="4.5", technique="TLA+ spec (Window.tla) model-checked with TLC; TLC behaviours replayed into the window structs and engine programs; recorded emissions validated by TLC (WindowTrace.tla)",
                     text="ExactlyOnce/CountSize/TumblingSpan/SessionGaps are TLC invariants of the transcribed windows for all arrival+watermark sequences in the bound; every replayed/recorded execution of the real structs is checked by TLC for conformance and for the same invariants on the recorded emissions and buffers.",
                     note=WIN_NOTE)
CHECKS["C13"] = dict(engine="tlc+vh", level="model_checking", ref="4.5", technique="TLA+ spec (Window.tla) model-checked with TLC; TLC behaviours replayed into sliding windows and engine programs; recorded emissions validated by TLC",
                     text="SlidingContent/SlidingTiming/SlidingCountShape/SlidingCountTiming are TLC invariants of the model and are evaluated by TLC on every recorded emission of the real sliding windows.",
                     note=WIN_NOTE)

EXPR_NOTE = ("Trusted: TLC; the transcription Expr.tla is itself validated against the code on every case (model/impl mismatch counters in evidence). "
             "Bounded: every expression with <= 2 leaves (+ unary wrappers) over the spec's leaf alphabet in 4 environments (thorough adds sampled 3-leaf trees).")
CHECKS["C08"] = dict(engine="tlc+vh", level="model_checking", ref="4.4", technique="TLA+ spec (Expr.tla) with TLC invariant CmpMath/GeConsistent over an exhaustive expression builder; every case replayed into the evaluator, eval_binary_op and Engine (.where/.emit/sequence step)",
                     text="TLC decides the transcribed comparison arms against the mathematical order for every operand pair in the bound; each enumerated comparison is executed by the real evaluator in four contexts and must equal the mathematical verdict.",
                     note=EXPR_NOTE)
CHECKS["C09"] = dict(engine="tlc+vh", level="model_checking", ref="4.4", technique="TLA+ spec (Expr.tla: AcceptWhere vs AcceptStep) enumerated by TLC; every filter case replayed as .where verdict and as a SaseEngine step; error-delta against the faithful transcription",
                     text="TLC enumerates every filter expression of the bound; the real .where and step verdicts must agree except where the faithful transcription predicts exactly the recorded finding; any unpredicted disagreement is a violation.",
                     note=EXPR_NOTE)
CHECKS["C10"] = dict(engine="tlc+vh", level="model_checking", ref="4.4", technique="TLA+ spec (Expr.tla: Fold/FoldSound) enumerated by TLC; every case folded by optimize::fold_program and evaluated before/after, plus parse()->Engine end to end; error-delta against the faithful transcription",
                     text="Every expression of the bound is evaluated unfolded and folded by the real code; differences must be exactly those the transcribed folder predicts (recorded finding), anything else is a violation.",
                     note=EXPR_NOTE)

NOT_APPLICABLE = {
    "C41": "parser totality over arbitrary strings: no state/transition system to specify; a TLA+ model would only enumerate token strings (fuzzing under another name)",
    "C43": "LSP handler robustness over arbitrary text/cursor: per-call robustness, no protocol state in the property; outside model-based verification",
}
for _p in ["C%02d" % i for i in range(1, 47)]:
    if _p not in CHECKS and _p not in NOT_APPLICABLE:
        NOT_APPLICABLE[_p] = "check designed in DESIGN.md section 4 but not yet built in this round; not claimed until its command exists"
