"""C11 — spec/expr/ExprTot.tla enumerates every operator and built-in over every tuple of boundary values; the harness
evaluates each case with the real evaluator and through Engine .where/.emit under catch_unwind (debug build: overflow checks on)."""
import os
import vlib
from vlib import Verdict, run_tlc, extract_cases, write_ndjson, run_harness, load_report, workdir

SPEC = os.path.join(vlib.SPEC, "expr")


def run(prop, replay=None):
    quick = vlib.tier() != "thorough"
    v = Verdict(prop, "exploration")
    v.rule = ("case = (operator or built-in, tuple of boundary-value leaves: i64 extremes, NaN/inf/-0.0, empty/non-ASCII strings, nested arrays/maps, null, missing); "
              "TLC enumerates the full product (third arguments from a reduced set); non-trivial = the evaluator returned a value; distinct by hash")
    v.assumptions = ["harness built with overflow checks (dev profile), like the repository's own test profile",
                     "range sizes are excluded by the property: range() is called with small or absent bounds only where the leaf alphabet allows; a timeout is a tool error"]
    w = workdir("expr_C11")
    r = run_tlc(SPEC, "ExprTot", "ExprTot.cfg", "tot", workers=4, timeout=900)
    if r.error or r.violated:
        raise vlib.ToolError("ExprTot: %s %s" % (r.error, r.violated))
    cases = extract_cases(r.stdout)
    # range(...) with extreme sizes is outside the property ("range sizes are excluded")
    big = {"MAX", "MIN", "MINP1", "SIXTYFOUR", "TS", "DUR", "FBIG", "INF", "NINF", "NAN"}
    cases = [c for c in cases if not (c["op"] == "range" and ({c["x"], c["y"], c["z"]} & big))]
    if quick:
        sd = vlib.seed()
        cases = [c for i, c in enumerate(cases) if c["z"] == "NONE" or (i + sd) % 4 == 0]
    else:
        v.exhaustive = True
    v.add_tlc(r, "ExprTot enumeration")
    cpath, rpath = os.path.join(w, "cases.ndjson"), os.path.join(w, "report.json")
    write_ndjson(cpath, cases)
    run_harness("vh", ["expr-total", cpath, rpath], timeout=3000)
    rep = load_report(rpath)
    v.add_report(rep)
    v.notes.append("%d cases evaluated (%d flagged by the spec as overflowing i64), %d of them also through Engine .where/.emit" % (
        rep["total"], rep["counters"].get("overflow_cases", 0), rep["counters"].get("engine_events", 0)))
    if rep["counters"].get("overflow_cases", 0) == 0:
        raise vlib.ToolError("no overflow case reached: corpus vacuous")
    return v.finish()
