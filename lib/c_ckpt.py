"""C19, C20, C21 — spec/checkpoint/."""
import os
import vlib
from vlib import Verdict, run_tlc, need_ok, extract_cases, write_ndjson, run_harness, load_report, workdir, tv_blocks

SPEC = os.path.join(vlib.SPEC, "checkpoint")


def tlc_cfg(name, text, module, wname, **kw):
    path = os.path.join(SPEC, name)
    with open(path, "w") as f:
        f.write(text)
    try:
        return run_tlc(SPEC, module, name, wname, **kw)
    finally:
        os.remove(path)


def run_c21(prop):
    quick = vlib.tier() != "thorough"
    v = Verdict(prop, "model_checking")
    v.rule = ("case = (max_checkpoints 1..3, n completed checkpoints, crash phase of checkpoint n+1: none / before / temp file partial / temp file full / renamed / "
              "after 1 or 2 prune deletions / acknowledged, newest file corrupted or not), then restart and one more checkpoint; all 240 (thorough: 480) combinations; "
              "non-trivial = crash or corruption present")
    v.assumptions = ["the crash is emulated by a StateStore wrapper around the real FileStore that leaves on disk what FileStore::put / prune leave at that step",
                     "corruption = truncated newest file"]
    v.exhaustive = True
    w = workdir("ckstore")
    inv = "INVARIANTS RecoverNewestComplete RecoverySucceedsWithOlder AtMostMax IdsIncrease AckedSurvive\n"
    r = need_ok(tlc_cfg("_mc.cfg", "CONSTANTS Keep = 2 MaxSaves = %d Fallback = TRUE\nINIT Init\nNEXT Next\n%sCHECK_DEADLOCK FALSE\n" % (4 if quick else 6, inv), "CkptStore", "mc", workers=8, timeout=1800), "MC design with fallback")
    v.add_tlc(r, "MC CkptStore (fallback design): all five invariants")
    r0 = tlc_cfg("_mc0.cfg", "CONSTANTS Keep = 2 MaxSaves = 3 Fallback = FALSE\nINIT Init\nNEXT Next\n%sCHECK_DEADLOCK FALSE\n" % inv, "CkptStore", "mc0", workers=4, timeout=900)
    if r0.violated != "RecoverySucceedsWithOlder":
        raise vlib.ToolError("no-fallback switch expected to violate RecoverySucceedsWithOlder: %s" % (r0.error or r0.violated))
    v.notes.append("spec switch Fallback=FALSE (load_latest without fallback) violates RecoverySucceedsWithOlder at design level")
    v.checker_cmds.append("tlc CkptStore.tla")
    r = tlc_cfg("_gen.cfg", "CONSTANTS MaxKeep = 3 MaxN = %d\nINIT Init\nNEXT Next\nINVARIANT Emit\nCHECK_DEADLOCK FALSE\n" % (4 if quick else 9), "CkptGen", "gen", workers=2, timeout=900)
    if r.error or r.violated:
        raise vlib.ToolError("CkptGen: %s %s" % (r.error, r.violated))
    cases = extract_cases(r.stdout)
    v.add_tlc(r, "CkptGen: %d crash schedules" % len(cases))
    cpath, rpath, tpath = os.path.join(w, "cases.ndjson"), os.path.join(w, "report.json"), os.path.join(w, "trace.ndjson")
    write_ndjson(cpath, cases)
    run_harness("vh", ["ckstore-replay", cpath, rpath, tpath])
    rep = load_report(rpath)
    v.add_report(rep)
    ok = tv_blocks(v, prop, SPEC, "CkptTrace", [], ["RCkptStore"], tpath, "gen", conform=None)
    v.notes.append("%d schedules executed on the real FileStore/CheckpointManager; %d recorded blocks accepted by TLC" % (rep["total"], ok))
    return v.finish()


def run(prop, replay=None):
    if prop == "C21":
        return run_c21(prop)
    import c_ckpt2
    return c_ckpt2.run(prop, replay)
