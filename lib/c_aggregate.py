"""C14 — spec/aggregate/Aggregate.tla: exact rational reference for count, sum, avg, min, max, sample variance, first, last,
count_distinct, ema over batches with missing / non-numeric / NaN values, with and without a 10^9 offset."""
import os
import vlib
from vlib import Verdict, run_tlc, extract_cases, write_ndjson, run_harness, load_report, workdir

SPEC = os.path.join(vlib.SPEC, "aggregate")


def run(prop, replay=None):
    quick = vlib.tier() != "thorough"
    v = Verdict(prop, "exploration")
    v.rule = ("case = batch of 0..5 (thorough 0..6) values from {1, 2, 1.5, -3, missing, string, NaN}, optionally shifted by 10^9; every batch; "
              "non-trivial = at least two numeric values; distinct by hash")
    v.assumptions = ["float results compared within 1e-9 relative (variance 1e-6); NaN/string cells the documentation leaves open are not compared with the reference, the three paths must still agree there"]
    v.exhaustive = True
    w = workdir("agg")
    cfg = "_agg.cfg"
    with open(os.path.join(SPEC, cfg), "w") as f:
        f.write("CONSTANTS MaxLen = %d\nINIT Init\nNEXT Next\nINVARIANT RefSane\nINVARIANT Emit\nCHECK_DEADLOCK FALSE\n" % (5 if quick else 6))
    r = run_tlc(SPEC, "Aggregate", cfg, "agg", workers=8, timeout=1800)
    os.remove(os.path.join(SPEC, cfg))
    if r.error or r.violated:
        raise vlib.ToolError("Aggregate: %s %s" % (r.error, r.violated))
    cases = extract_cases(r.stdout)
    v.add_tlc(r, "Aggregate: %d batches with exact references (RefSane checked)" % len(cases))
    v.checker_cmds.append("tlc Aggregate.tla")
    cpath, rpath = os.path.join(w, "cases.ndjson"), os.path.join(w, "report.json")
    write_ndjson(cpath, cases)
    run_harness("vh", ["agg-replay", cpath, rpath], timeout=3000)
    v.add_report(load_report(rpath))
    return v.finish()
