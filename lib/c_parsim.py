"""C18 — spec/parsim: ParSim.tla (design: hash distribution on the pipeline's key preserves the output bag for every hash function;
chunking does so only for stateless pipelines), ParGen.tla cases run through the real `varpulis simulate` binary with 1 and N workers."""
import os
import re
import json
import subprocess
import collections
import vlib
from vlib import Verdict, run_tlc, extract_cases, workdir

SPEC = os.path.join(vlib.SPEC, "parsim")
AGG = "    .aggregate(n: count(), sm: sum(id), f: first(id), l: last(id))\n    .emit(n: n, sm: sm, f: f, l: l)\n"
PROGRAMS = {
    "filter": "stream S = A\n    .where(x > 1)\n    .emit(id: id, x: x, k: k)\n",
    "chain": "stream D = A\n    .where(x > 0)\n    .emit(id: id, y: x * 2)\n\nstream S = D\n    .where(y > 2)\n    .emit(id: id, y: y)\n",
    "two_streams": "stream S = A\n    .where(x > 1)\n    .emit(id: id)\n\nstream T = B\n    .where(x < 2)\n    .emit(id: id, x: x)\n",
    "pcount": "stream S = A\n    .partition_by(k)\n    .window(2)\n" + AGG,
    "pslide": "stream S = A\n    .partition_by(k)\n    .window(3, sliding: 1)\n" + AGG,
    "pagg": "stream S = A\n    .partition_by(k)\n" + AGG,
    "pseq": "stream S = A as a\n    -> B as b\n    .partition_by(k)\n    .emit(ai: a.id, bi: b.id)\n",
    "pseq_where": "stream S = A as a\n    -> B where x >= a.x as b\n    .partition_by(k)\n    .emit(ai: a.id, bi: b.id)\n",
    "pkleene": "stream S = A as a\n    -> all B as b\n    -> C as c\n    .partition_by(k)\n    .emit(ai: a.id, bi: b.id, ci: c.id)\n",
}
STR_KEYS = ["", "alpha", "beta", "Alpha", "gamma", "delta", "beta "]
INT_KEYS = [0, 7, -7, 70, 1000, 3, 12]


def mc(pipeline, dist, maxlen):
    cfg = "_ps_%s_%s.cfg" % (pipeline, dist)
    with open(os.path.join(SPEC, cfg), "w") as f:
        f.write(open(os.path.join(SPEC, "ParSim.cfg")).read().replace('Pipeline = "window"', 'Pipeline = "%s"' % pipeline)
                .replace('Dist = "hash"', 'Dist = "%s"' % dist).replace("MaxLen = 6", "MaxLen = %d" % maxlen))
    r = run_tlc(SPEC, "ParSim", cfg, "parsim_%s_%s" % (pipeline, dist), workers=4, timeout=2400)
    os.remove(os.path.join(SPEC, cfg))
    return r


def build_cli():
    env = dict(os.environ, CARGO_NET_OFFLINE="true")
    p = subprocess.run(["cargo", "build", "--offline", "-p", "varpulis-cli", "--bin", "varpulis"], cwd=vlib.HARNESS, env=env,
                       stdout=subprocess.PIPE, stderr=subprocess.STDOUT, text=True, timeout=3600)
    if p.returncode != 0:
        raise vlib.ToolError("building the varpulis binary failed:\n" + p.stdout[-2000:])
    return os.path.join(vlib.HARNESS, "target", "debug", "varpulis")


def _once(binary, prog, evt, nw, mode, key, quiet):
    cmd = [binary, "simulate", "-p", prog, "-e", evt, "--immediate", "-w", str(nw)]
    if mode == "preload":
        cmd.append("--preload")
    if key:
        cmd += ["--partition-by", key]
    if quiet:
        cmd.append("--quiet")
    p = subprocess.run(cmd, stdout=subprocess.PIPE, stderr=subprocess.PIPE, text=True, timeout=120)
    if p.returncode != 0:
        return None, None, "exit %d: %s" % (p.returncode, (p.stderr or p.stdout)[-400:])
    out = p.stdout
    lines = []
    if "Output Events Summary:" in out:
        for ln in out.split("Output Events Summary:")[1].splitlines():
            if ln.startswith("  - "):
                lines.append(ln[4:])
    m = re.search(r"Output events emitted: (\d+)", out)
    if not m:
        return None, None, "no summary: " + out[-300:]
    return int(m.group(1)), lines, None


def simulate(binary, prog, evt, nw, mode, key):
    """The binary lists the outputs its collector task received within 100 ms after processing; on a loaded machine the list can be
    incomplete (equally with one worker).  The engines' own emitted counter (--quiet) is race-free, so a listing is only used when it
    is complete by that counter; otherwise the run is repeated.  Returns (Counter of listed outputs, emitted count, error)."""
    qn, _, err = _once(binary, prog, evt, nw, mode, key, True)
    if qn is None:
        return None, None, err
    for attempt in range(6):
        n, lines, err = _once(binary, prog, evt, nw, mode, key, False)
        if n is None:
            return None, None, err
        if n == qn and len(lines) == qn:
            return collections.Counter(lines), qn, None
        if n > qn:
            return collections.Counter(lines), n, None       # more listed than the engines counted: let the comparison decide
    raise vlib.ToolError("the binary's output listing stayed incomplete in 6 runs (machine overloaded?): listed %s, engines emitted %s" % (n, qn))


def run(prop, replay=None):
    quick = vlib.tier() != "thorough"
    v = Verdict(prop, "exploration")
    v.rule = ("case = (pipeline class of 9, key kind, preload/streaming, worker count 2..8, stream of 12 (thorough 16) events over 4 keys) run "
              "through the real CLI binary with 1 and N workers (auto-selected and explicit --partition-by); non-trivial = the single-worker run emits something; distinct by hash")
    v.assumptions = ["outputs are read from the binary's 'Output Events Summary' (its own count line must agree)",
                     "keys of one type per case; events without the key field are included (they form the placeholder partition)"]
    ml = 5 if quick else 6
    r = mc("window", "hash", ml)
    if r.error:
        raise vlib.ToolError("ParSim: " + r.error)
    v.add_tlc(r, "ParSim: Same holds for the key-partitioned window under every hash function")
    r = mc("filter", "chunk", ml)
    if r.error:
        raise vlib.ToolError("ParSim filter/chunk: " + r.error)
    v.add_tlc(r, "ParSim: Same holds for the stateless filter under chunking")
    for dist in ("chunk", "rr_event"):
        rr = mc("window", dist, 5)
        if "Invariant Same is violated" not in rr.stdout:
            raise vlib.ToolError("ParSim sanity: stateful pipeline under %s not rejected" % dist)
    v.notes.append("sanity: stateful pipeline under chunk / per-event round robin violates Same")
    w = workdir("parsim")
    L = 12 if quick else 16
    cfg = "_pg.cfg"
    with open(os.path.join(SPEC, cfg), "w") as f:
        f.write("CONSTANTS MaxLen = %d\nNKeys = 4\nINIT Init\nNEXT Next\nINVARIANT Emit\nCHECK_DEADLOCK FALSE\n" % L)
    r = run_tlc(SPEC, "ParGen", cfg, "pargen", workers=1, timeout=1800, simulate=(40 if quick else 100), depth=L + 1, tlc_seed=vlib.seed())
    os.remove(os.path.join(SPEC, cfg))
    if r.error:
        raise vlib.ToolError("ParGen: " + r.error)
    allc = extract_cases(r.stdout)
    # the simulator prints one case per successor of the last step: keep a few per walk
    by = collections.OrderedDict()
    for c in allc:
        key = json.dumps([c["cls"], c["kk"], c["mode"], c["nw"], c["stream"][:-1]])
        by.setdefault(key, [])
        if len(by[key]) < 2:
            by[key].append(c)
    cases = [c for g in by.values() for c in g]
    v.add_tlc(r, "ParGen: %d cases" % len(cases))
    binary = build_cli()
    import hashlib
    nontrivial = set()
    per = collections.Counter()
    for n, c in enumerate(cases):
        prog = os.path.join(w, "p.vpl")
        evt = os.path.join(w, "e.evt")
        open(prog, "w").write(PROGRAMS[c["cls"]])
        keys = STR_KEYS if c["kk"] == "str" else INT_KEYS
        with open(evt, "w") as f:
            for i, e in enumerate(c["stream"]):
                if e["k"] == 0:
                    f.write('%s { id: %d, x: %d }\n' % (e["type"], i + 1, e["x"]))
                else:
                    f.write('%s { id: %d, k: %s, x: %d }\n' % (e["type"], i + 1, json.dumps(keys[e["k"]]), e["x"]))
        small = {"class": c["cls"], "program": PROGRAMS[c["cls"]], "events": open(evt).read(), "workers": c["nw"], "mode": c["mode"]}
        ref, refn, err = simulate(binary, prog, evt, 1, c["mode"], None)
        if ref is None:
            raise vlib.ToolError("single-worker run failed: %s\n%s" % (err, small))
        h = hashlib.sha1(json.dumps(small, sort_keys=True).encode()).hexdigest()
        v.evaluations += 1
        per[c["cls"]] += 1
        if sum(ref.values()) > 0:
            nontrivial.add(h)
        for key in (None, "k"):
            got, gotn, err = simulate(binary, prog, evt, c["nw"], c["mode"], key)
            if got is None:
                v.violations.append({"what": "multi-worker run failed: " + err, "case": small, "partition_by": key})
            elif got != ref:
                v.violations.append({"what": "N workers emit a different multiset of outputs than one worker", "case": small, "partition_by": key,
                             "expected": sorted(ref.elements()), "got": sorted(got.elements())})
        if len(v.samples) < 3:
            v.samples.append(small)
    v.distinct_nontrivial += len(nontrivial)
    v.traces += len(cases)
    v.notes.append("per class: %s" % dict(per))
    return v.finish()
