"""C04 — spec/partition: Partition.tla (design-level: key table vs per-key reference, with faulty variants as sanity), PartGen.tla
cases replayed as a differential on the real engine: whole partitioned run vs union of per-key runs."""
import os
import vlib
from vlib import Verdict, run_tlc, extract_cases, write_ndjson, run_harness, load_report, workdir

SPEC = os.path.join(vlib.SPEC, "partition")


def mc(leak, maxlen):
    cfg = "_p_%s.cfg" % leak
    with open(os.path.join(SPEC, cfg), "w") as f:
        f.write(open(os.path.join(SPEC, "Partition.cfg")).read().replace('Leak = "no"', 'Leak = "%s"' % leak).replace("MaxLen = 7", "MaxLen = %d" % maxlen))
    r = run_tlc(SPEC, "Partition", cfg, "partition_" + leak, workers=4, timeout=1200)
    os.remove(os.path.join(SPEC, cfg))
    return r


def run(prop, replay=None):
    quick = vlib.tier() != "thorough"
    v = Verdict(prop, "model_checking")
    v.rule = ("case = (operator class of 16, key type of 3, stream of 10 (thorough 13) events over up to 3 keys + missing key); "
              "non-trivial = at least two partitions and the per-key runs emit something; distinct by hash")
    v.assumptions = ["reference = the same real engine run separately on each key's sub-sequence (the property is stated that way)",
                     "string keys avoid the placeholders '' and 'default'"]
    r = mc("no", 7 if quick else 9)
    if r.error:
        raise vlib.ToolError("Partition: " + r.error)
    v.add_tlc(r, "Partition: PerKey and NoMixing hold for the key-table operator")
    for leak in ("shared", "collide"):
        rr = mc(leak, 7)
        if "Invariant PerKey is violated" not in rr.stdout:
            raise vlib.ToolError("Partition sanity: faulty variant %s not rejected" % leak)
    v.notes.append("sanity: faulty variants shared/collide violate PerKey")
    w = workdir("partition")
    cfg = "_pg.cfg"
    L = 10 if quick else 12
    with open(os.path.join(SPEC, cfg), "w") as f:
        f.write("CONSTANTS MaxLen = %d\nNKeys = 3\nINIT Init\nNEXT Next\nINVARIANT Emit\nCHECK_DEADLOCK FALSE\n" % L)
    r = run_tlc(SPEC, "PartGen", cfg, "partgen", workers=1, timeout=1800, simulate=(250 if quick else 1200), depth=L + 1, tlc_seed=vlib.seed())
    os.remove(os.path.join(SPEC, cfg))
    if r.error:
        raise vlib.ToolError("PartGen: " + r.error)
    cases = extract_cases(r.stdout)
    if len({c["cls"] for c in cases}) < 16:
        raise vlib.ToolError("PartGen: not every class generated")
    v.add_tlc(r, "PartGen: %d cases" % len(cases))
    cpath, rpath = os.path.join(w, "cases.ndjson"), os.path.join(w, "report.json")
    write_ndjson(cpath, cases)
    run_harness("vh", ["partition-replay", cpath, rpath], timeout=3000)
    rep = load_report(rpath)
    v.add_report(rep)
    v.notes.append("per class: %s" % {k[6:]: n for k, n in rep["counters"].items() if k.startswith("class_")})
    return v.finish()
