"""C34 — spec/coordinator/InjectRouting.tla: first-match routing reference over every route table of the bound; the harness
injects every (type, key) pair twice, singly and as one batch, into a real Coordinator with a loopback mock worker."""
import os
import vlib
from vlib import Verdict, run_tlc, extract_cases, write_ndjson, run_harness, load_report, workdir

SPEC = os.path.join(vlib.SPEC, "coordinator")


def run(prop, replay=None):
    quick = vlib.tier() != "thorough"
    v = Verdict(prop, "model_checking")
    v.rule = ("case = (ordered route table of 0..2 (thorough 3) routes over exact and prefix patterns incl. overlapping ones, partition strategy hash / round-robin); "
              "each case injects 4 event types x 5 key shapes (two strings, int, float, missing) twice, singly and as one batch; every table; all cases non-trivial")
    v.exhaustive = True
    v.assumptions = ["workers are a loopback mock HTTP server recording what reaches each replica", "3 replicas of p1, 2 of p2"]
    w = workdir("inject")
    cfg = "_ir.cfg"
    with open(os.path.join(SPEC, cfg), "w") as f:
        f.write("CONSTANTS MaxRoutes = %d\nINIT Init\nNEXT Next\nINVARIANT Emit\nCHECK_DEADLOCK FALSE\n" % (2 if quick else 3))
    r = run_tlc(SPEC, "InjectRouting", cfg, "inject", workers=4, timeout=1800)
    os.remove(os.path.join(SPEC, cfg))
    if r.error or r.violated:
        raise vlib.ToolError("InjectRouting: %s %s" % (r.error, r.violated))
    cases = extract_cases(r.stdout)
    v.add_tlc(r, "InjectRouting: %d (route table, strategy) cases with reference targets" % len(cases))
    v.checker_cmds.append("tlc InjectRouting.tla")
    cpath, rpath = os.path.join(w, "cases.ndjson"), os.path.join(w, "report.json")
    write_ndjson(cpath, cases)
    run_harness("vh", ["inject-replay", cpath, rpath], timeout=3000)
    v.add_report(load_report(rpath))
    return v.finish()
