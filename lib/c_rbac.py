"""C29 — spec/api/Rbac.tla: the full matrix configuration x credential x endpoint with the reference 'served iff granted role >=
required role'; every cell executed against the real cluster routes through warp::test, plus 2048 blind wrong keys."""
import os
import vlib
from vlib import Verdict, run_tlc, extract_cases, write_ndjson, run_harness, load_report, workdir

SPEC = os.path.join(vlib.SPEC, "api")


def run(prop, replay=None):
    v = Verdict(prop, "model_checking")
    v.rule = ("case = cell of the matrix 3 configurations (key file with three roles, single admin key, authentication disabled) x 9 credentials (none, wrong, three transposed near-miss keys, "
              "a two-bit-flip near miss, viewer, operator, admin) x 26 cluster endpoints; all 702 cells; non-trivial = the reference rejects the request")
    v.exhaustive = True
    v.assumptions = ["cluster API routes (default build: no Raft RPC routes; tenant admin routes are exercised by C28's machinery)", "served = status is neither 401 nor 403; state digest = workers, groups, connectors, migrations"]
    w = workdir("rbac")
    r = run_tlc(SPEC, "Rbac", "Rbac.cfg", "rbac", workers=2, timeout=600)
    if r.error or r.violated:
        raise vlib.ToolError("Rbac: %s %s" % (r.error, r.violated))
    cases = extract_cases(r.stdout)
    v.add_tlc(r, "Rbac matrix: %d cells (Monotone checked on the table)" % len(cases))
    v.checker_cmds.append("tlc Rbac.tla")
    cpath, rpath = os.path.join(w, "cases.ndjson"), os.path.join(w, "report.json")
    write_ndjson(cpath, cases)
    run_harness("vh", ["rbac-replay", cpath, rpath], timeout=3000)
    v.add_report(load_report(rpath))
    return v.finish()
