"""C24 — spec/watermark/Watermark.tla: per-source watermark tracker (observe / explicit advance / effective minimum) and the
engine's late-data gate.  MC: Monotone, EffIsMin, LateOnlyIfBelow over all call sequences in the bound.  GEN: TLC behaviours
replayed into PerSourceWatermarkTracker and into an Engine with .watermark()/.allowed_lateness() streams.  TV: recorded
per-source watermarks, effective watermark and drop decisions validated by TLC (WatermarkTrace.tla)."""
import os
import vlib
from vlib import Verdict, run_tlc, need_ok, extract_cases, write_ndjson, run_harness, load_report, workdir, tv_blocks

SPEC = os.path.join(vlib.SPEC, "watermark")
CONST = ["CONSTANTS", '  Srcs = {"a","b","c"}', "  Ooo <- OooMC", "  MaxTs = 1000000", "  MaxLen = 1000000", "  Lateness = 1"]


def tlc_cfg(name, text, module, wname, **kw):
    path = os.path.join(SPEC, name)
    with open(path, "w") as f:
        f.write(text)
    try:
        return run_tlc(SPEC, module, name, wname, **kw)
    finally:
        os.remove(path)


def run(prop, replay=None):
    quick = vlib.tier() != "thorough"
    v = Verdict(prop, "model_checking")
    v.rule = ("case = sequence of observe(source, ts) / advance(source, wm) calls over 3 sources with out-of-orderness 0/1/2 s; "
              "non-trivial = mixes explicit advances with observations; distinct by hash of the call sequence")
    v.assumptions = ["whole-second timestamps", "engine level: one stream per source type, allowed lateness 1 s, watermarks read through create_checkpoint()"]
    w = workdir("wm")
    base = 'CONSTANTS Srcs = {"a","b","c"} Ooo <- OooMC MaxTs = %d MaxLen = %d Lateness = 1\nINIT Init\nNEXT Next\n'
    r = need_ok(tlc_cfg("_mc.cfg", base % (5, 3 if quick else 5) + "INVARIANTS Monotone EffIsMin LateOnlyIfBelow\nCHECK_DEADLOCK FALSE\n", "WatermarkMC", "mc", workers=8 if quick else 14, timeout=3000), "MC")
    v.add_tlc(r, "MC Monotone/EffIsMin/LateOnlyIfBelow")
    v.checker_cmds.append("tlc WatermarkMC.tla")
    r = tlc_cfg("_gen.cfg", base % (9, 8 if quick else 10) + "INVARIANT Emit\nCHECK_DEADLOCK FALSE\n", "WatermarkMC", "gen", workers=1, timeout=1800,
                simulate=(25 if quick else 800), depth=(9 if quick else 11), tlc_seed=vlib.seed())
    if r.error:
        raise vlib.ToolError("GEN: " + r.error)
    cases = extract_cases(r.stdout)
    if len(cases) < 100:
        raise vlib.ToolError("GEN produced only %d cases" % len(cases))
    if quick:
        cases = cases[:700]
    v.add_tlc(r, "GEN simulate")
    cpath, rpath, tpath = os.path.join(w, "cases.ndjson"), os.path.join(w, "report.json"), os.path.join(w, "trace.ndjson")
    write_ndjson(cpath, cases)
    run_harness("vh", ["wm-replay", cpath, rpath, tpath])
    rep = load_report(rpath)
    v.add_report(rep)
    ok1 = tv_blocks(v, prop, SPEC, "WatermarkTrace", CONST, ["RMonotone", "REffIsMin", "RGate"], tpath, "gen")
    rep2, tr2 = os.path.join(w, "report2.json"), os.path.join(w, "trace2.ndjson")
    run_harness("vh", ["wm-record", rep2, tr2, 60 if quick else 1500, 40 if quick else 100])
    v.add_report(load_report(rep2))
    ok2 = tv_blocks(v, prop, SPEC, "WatermarkTrace", CONST, ["RMonotone", "REffIsMin", "RGate"], tr2, "rnd")
    v.notes.append("%d generated + %d random trace blocks (tracker and engine level) accepted by TLC; %d engine blocks contain a dropped event" % (ok1, ok2, rep["counters"].get("engine_blocks_with_drops", 0)))
    if rep["counters"].get("engine_blocks_with_drops", 0) == 0:
        raise vlib.ToolError("late gate never dropped an event: RGate vacuous")
    return v.finish()
