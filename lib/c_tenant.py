"""C22 — spec/tenant/TenantStore.tla: management operation histories with the abstract acknowledged state after every step; each
history runs on a real TenantManager over a store that dies at the k-th write, for every k; recovery on the frozen contents must
give the acknowledged state or that state plus the single in-flight operation."""
import os
import vlib
from vlib import Verdict, run_tlc, extract_cases, write_ndjson, run_harness, load_report, workdir

SPEC = os.path.join(vlib.SPEC, "tenant")


def run(prop, replay=None):
    quick = vlib.tier() != "thorough"
    v = Verdict(prop, "model_checking")
    v.rule = ("case = history of create/delete tenant, deploy/remove/reload pipeline over 2 tenants x 2 pipelines x 4 program shapes (plain, .distinct(), .limit(), sequence), "
              "executed once per possible crash point (every store write); non-trivial: all; distinct by hash of the history")
    v.assumptions = ["store-write granularity (a wrapper around MemoryStore fails from the k-th put/delete on and freezes the contents); intra-put points of FileStore are covered by C21's machinery"]
    w = workdir("tenant")
    cfg = "_ts.cfg"
    L = 5 if quick else 7
    with open(os.path.join(SPEC, cfg), "w") as f:
        f.write("CONSTANT MaxOps = %d\nINIT Init\nNEXT Next\nINVARIANT Emit\nCHECK_DEADLOCK FALSE\n" % L)
    r = run_tlc(SPEC, "TenantStore", cfg, "tenant", workers=1, timeout=1800, simulate=(40 if quick else 1500), depth=L + 1, tlc_seed=vlib.seed())
    os.remove(os.path.join(SPEC, cfg))
    if r.error:
        raise vlib.ToolError("TenantStore: " + r.error)
    cases = extract_cases(r.stdout)
    if len(cases) < 50:
        raise vlib.ToolError("only %d histories" % len(cases))
    if quick:
        cases = cases[:350]
    v.add_tlc(r, "TenantStore: %d histories with abstract states" % len(cases))
    v.checker_cmds.append("tlc -simulate TenantStore.tla")
    cpath, rpath = os.path.join(w, "cases.ndjson"), os.path.join(w, "report.json")
    write_ndjson(cpath, cases)
    run_harness("vh", ["tenantstore-replay", cpath, rpath], timeout=3000)
    rep = load_report(rpath)
    v.add_report(rep)
    v.evaluations = rep["counters"].get("crash_points", 0)
    v.notes.append("%d histories x every crash point = %d (history, crash point) executions" % (rep["total"], rep["counters"].get("crash_points", 0)))
    return v.finish()
