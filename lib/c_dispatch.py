"""C16, C17 — spec/engine/Dispatch.tla: the engine's dispatch loops as one queue machine (routing table in registration
order, FIFO queue with depth cut, output rename, .process() forwarding).  TLC evaluates the three paths on programs drawn from
a stream pool, every event sequence and every batch split; each case is replayed through Engine::process, process_batch and
process_batch_sync; hook H6 records every (stream, event) pair handed to a pipeline."""
import os
import vlib
from vlib import Verdict, run_tlc, extract_cases, write_ndjson, run_harness, load_report, workdir

SPEC = os.path.join(vlib.SPEC, "engine")


def tlc_cfg(name, text, module, wname, **kw):
    path = os.path.join(SPEC, name)
    with open(path, "w") as f:
        f.write(text)
    try:
        return run_tlc(SPEC, module, name, wname, **kw)
    finally:
        os.remove(path)


def run(prop, replay=None):
    quick = vlib.tier() != "thorough"
    v = Verdict(prop, "model_checking")
    v.rule = ("case = (program of 1-3 streams from a 9-stream pool: filters, emitters, derived chains, merge + count window, .process() with and without consumers; "
              "event sequence over {A,B} x {0,1}; batch split); non-trivial = per-event processing emits something; distinct by hash")
    v.assumptions = ["programs without joins, connectors, timers (joins: see C15; the sync path skipping joins is listed in DESIGN.md section 7)"]
    w = workdir("disp_" + prop)
    base = "CONSTANTS MaxDepth = 10 MaxLen = %d MaxStreams = %d Pool <- MCPool NProgs = %d NStreams = %d TwoPhase = %s\nINIT Init\nNEXT Next\n"
    # MC: the faithful machine violates path equality at design level (recorded findings), on the sync and on the async path
    for inv in (["AsyncEq", "SyncEq"] if prop == "C16" else []):
        r0 = tlc_cfg("_mc.cfg", base % (2, 2, 0, 0, "FALSE") + "INVARIANT %s\nCHECK_DEADLOCK FALSE\n" % inv, "DispatchMC", "mc_" + prop, workers=8, timeout=1800)
        if r0.violated != inv:
            raise vlib.ToolError("faithful dispatch model expected to violate %s: %s" % (inv, r0.error or r0.violated))
        v.add_tlc(r0, "MC: %s violated by the faithful model (recorded finding)" % inv)
    if prop == "C17":
        r0 = tlc_cfg("_mc.cfg", base % (2, 2, 0, 0, "FALSE") + "INVARIANT HandedSame\nCHECK_DEADLOCK FALSE\n", "DispatchMC", "mc_" + prop, workers=8, timeout=1800)
        if r0.error or r0.violated:
            raise vlib.ToolError("HandedSame: %s %s" % (r0.error, r0.violated))
        v.add_tlc(r0, "MC: async batch path hands over the same (stream, event) pairs as per-event processing, all 2-stream programs")
    v.checker_cmds.append("tlc DispatchMC.tla")
    # GEN 1: every program of <= 2 streams, sampled event sequences, every split, every two-phase load point
    r = tlc_cfg("_gen.cfg", base % (3, 2, 0, 5 if quick else 15, "TRUE") + "INVARIANT Emit\nCHECK_DEADLOCK FALSE\n", "DispatchMC", "gen_" + prop,
                workers=8 if quick else 14, timeout=3000, tlc_seed=vlib.seed())
    if r.error or r.violated:
        raise vlib.ToolError("GEN: %s %s %s" % (r.error, r.violated, r.stdout[-1500:]))
    cases = extract_cases(r.stdout)
    v.add_tlc(r, "GEN: all programs of <= 2 streams x sampled event sequences x all splits x all additive-load points")
    # GEN 2: sampled 3-stream programs, longer inputs
    r = tlc_cfg("_gen.cfg", base % (4, 3, 12 if quick else 60, 6 if quick else 15, "FALSE") + "INVARIANT Emit\nCHECK_DEADLOCK FALSE\n", "DispatchMC", "gen3_" + prop,
                workers=8 if quick else 14, timeout=3000, tlc_seed=vlib.seed())
    if r.error or r.violated:
        raise vlib.ToolError("GEN3: %s %s %s" % (r.error, r.violated, r.stdout[-1500:]))
    cases += extract_cases(r.stdout)
    if len(cases) < 200:
        raise vlib.ToolError("GEN produced only %d cases" % len(cases))
    v.add_tlc(r, "GEN: random 3-stream programs x event sequences x all splits")
    cpath, rpath = os.path.join(w, "cases.ndjson"), os.path.join(w, "report.json")
    write_ndjson(cpath, cases)
    run_harness("vh", ["dispatch-replay", cpath, rpath], timeout=3000)
    rep = load_report(rpath)
    v.add_report(rep)
    c = rep["counters"]
    v.notes.append("%d cases replayed on 3 entry points; all paths conform to the model in %d; model mismatches per path: %d/%d/%d" % (
        rep["total"], c.get("all_paths_conform", 0), c.get("model_mismatch_0", 0), c.get("model_mismatch_1", 0), c.get("model_mismatch_2", 0)))
    return v.finish()
