"""C40, C42, C46 (and C39, C44): function-shaped properties.  Each has a small TLA+ module that defines the input space
(and, where one exists, the reference meaning) exhaustively within a bound; TLC enumerates it; the harness runs every
case on the real code."""
import os
import vlib
from vlib import Verdict, run_tlc, extract_cases, write_ndjson, run_harness, load_report, workdir

SPEC = os.path.join(vlib.SPEC, "misc")
TABLE = {
    "C31": dict(module="PathFs", cfg=None, cmd="pathfs-replay", level="model_checking",
                rule="case = request path (absolute or relative, up to 3 (thorough 4) segments over 18 names: files, directories, '.', '..', 7 symlinks in and out of the work directory, a sibling directory whose name extends the work directory's name, a missing name); every request; non-trivial = the path exists"),
    "C40": dict(module="ValueEq", cfg="ValueEq.cfg", cmd="value-eq", level="model_checking",
                rule="case = ordered triple of value shapes (41 shapes incl. NaN with two payloads, -0.0, permuted and nested maps, maps with differing key sets whose odd key is Null); all 68 921 triples; non-trivial = first two are distinct shapes that compare equal"),
    "C42": dict(module="ForExpand", cfg="ForExpand.cfg", cmd="for-expand", level="model_checking",
                rule="case = program with a (nested) top-level for block: ranges 0..3 incl/excl, single- and multi-declaration bodies; every program of the spec's grammar; non-trivial = expansion has more than 2 declarations"),
    "C46": dict(module="EventFile", cfg=None, cmd="event-file", level="model_checking",
                rule="case = event file of up to N lines over 15 line forms (plain, ;, empty body, BATCH, @Ns / @Nms prefixes, JSONL, comments, blank, indented, nested values, malformed); every file; non-trivial = the format reference yields at least one event"),
}


def run(prop, replay=None):
    if prop in ("C39", "C44"):
        import c_misc2
        return c_misc2.run(prop, replay)
    quick = vlib.tier() != "thorough"
    t = TABLE[prop]
    v = Verdict(prop, t["level"])
    v.rule = t["rule"]
    v.exhaustive = True
    w = workdir("misc_" + prop)
    cfg = t["cfg"]
    if prop == "C31":
        global SPEC
        cfg = "_pf.cfg"
        with open(os.path.join(vlib.SPEC, "pathfs", cfg), "w") as f:
            f.write("CONSTANT MaxSegs = %d\nINIT Init\nNEXT Next\nINVARIANT ModelSane\nINVARIANT Emit\nCHECK_DEADLOCK FALSE\n" % (3 if quick else 4))
    if prop == "C46":
        cfg = "_ef.cfg"
        with open(os.path.join(SPEC, cfg), "w") as f:
            f.write("CONSTANT MaxLines = %d\nINIT Init\nNEXT Next\nINVARIANT Emit\nCHECK_DEADLOCK FALSE\n" % (3 if quick else 4))
    spec = os.path.join(vlib.SPEC, "pathfs") if prop == "C31" else SPEC
    r = run_tlc(spec, t["module"], cfg, "misc_" + prop, workers=8 if quick else 14, timeout=3000)
    if prop in ("C46", "C31"):
        os.remove(os.path.join(spec, cfg))
    if r.error or r.violated:
        raise vlib.ToolError("%s: %s %s" % (t["module"], r.error, r.violated))
    cases = extract_cases(r.stdout)
    if len(cases) < 100:
        raise vlib.ToolError("only %d cases" % len(cases))
    v.add_tlc(r, "%s: %d cases enumerated by TLC" % (t["module"], len(cases)))
    v.checker_cmds.append("tlc %s.tla" % t["module"])
    cpath, rpath = os.path.join(w, "cases.ndjson"), os.path.join(w, "report.json")
    write_ndjson(cpath, cases)
    run_harness("vh", [t["cmd"], cpath, rpath], timeout=3000)
    rep = load_report(rpath)
    v.add_report(rep)
    v.notes.append("%d cases executed on the real code; counters %s" % (rep["total"], rep["counters"]))
    if prop == "C31" and rep["counters"].get("accepted", 0) == 0:
        raise vlib.ToolError("validate_path accepted nothing: vacuous")
    return v.finish()
