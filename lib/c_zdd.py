"""C06, C07 — spec/zdd/Zdd.tla: reference set-family algebra, transcription of the arena's recursive algorithms, and a
register machine over one arena (build / op / optional-extend / count / gc).  MC: every pair of families over 3
variables (65 536 pairs) for all four transcribed algorithms.  GEN: each pair and each register-machine behaviour is
replayed into ZddArena and Zdd; canonicity, reducedness/ordering (hook H7), gc and the count cache are checked."""
import os
import vlib
from vlib import Verdict, run_tlc, extract_cases, write_ndjson, run_harness, load_report, workdir

SPEC = os.path.join(vlib.SPEC, "zdd")


def tlc_cfg(name, text, module, wname, **kw):
    path = os.path.join(SPEC, name)
    with open(path, "w") as f:
        f.write(text)
    try:
        return run_tlc(SPEC, module, name, wname, **kw)
    finally:
        os.remove(path)


def run(prop, replay=None):
    quick = vlib.tier() != "thorough"
    v = Verdict(prop, "model_checking")
    v.rule = ("pair case = two families over variables 1..3 (all 65 536 pairs); machine case = a history of build/union/intersection/difference/"
              "optional-extend/count/gc on 3 registers of ONE arena; non-trivial = both families non-empty resp. the history contains a gc; distinct by hash")
    v.assumptions = ["families over 3 variables (machine histories up to 9 operations)"]
    w = workdir("zdd_" + prop)
    # deviation: the code before the C06 fix
    r0 = tlc_cfg("_dev.cfg", "CONSTANTS N = 3 FIXED = FALSE K = 1 MaxOps = 1\nINIT PInit\nNEXT PNext\nINVARIANT DiffOk\nCHECK_DEADLOCK FALSE\n", "ZddMC", "dev_" + prop, workers=4, timeout=600)
    if r0.violated != "DiffOk":
        raise vlib.ToolError("unrepaired difference transcription does not violate DiffOk: %s" % (r0.error or r0.violated))
    v.notes.append("spec switch FIXED=FALSE (difference_refs before the fix) violates DiffOk at design level, as expected")
    # MC + GEN of all pairs in one exhaustive run
    r = tlc_cfg("_pairs.cfg", "CONSTANTS N = 3 FIXED = TRUE K = 1 MaxOps = 1\nINIT PInit\nNEXT PNext\nINVARIANTS DiffOk UnionOk InterOk OptOk EmitPair\nCHECK_DEADLOCK FALSE\n",
                "ZddGen", "pairs_" + prop, workers=8 if quick else 14, timeout=3000)
    if r.error or r.violated:
        raise vlib.ToolError("MC pairs: %s %s\n%s" % (r.error, r.violated, r.stdout[-2000:]))
    v.add_tlc(r, "MC transcribed union/intersection/difference/optional = reference on all pairs (N=3)")
    v.checker_cmds.append("tlc -config <pairs> ZddGen.tla")
    cases = extract_cases(r.stdout)
    if len(cases) < 65536:
        raise vlib.ToolError("expected 65536 pair cases, got %d" % len(cases))
    if quick:
        # every pair is model-checked; a seed-dependent 1/3 of them plus all pairs with small families is replayed
        sd = vlib.seed()
        cases = [c for i, c in enumerate(cases) if (i + sd) % 3 == 0 or len(c["a"]) + len(c["b"]) <= 4]
    else:
        v.exhaustive = True
    cpath, rpath = os.path.join(w, "pairs.ndjson"), os.path.join(w, "report.json")
    write_ndjson(cpath, cases)
    run_harness("vh", ["zdd-pairs", cpath, rpath], timeout=3000)
    rep = load_report(rpath)
    v.add_report(rep)
    v.notes.append("%d pair cases replayed into ZddArena and Zdd" % rep["total"])
    # register machine
    r = tlc_cfg("_mach.cfg", "CONSTANTS N = 3 FIXED = TRUE K = 3 MaxOps = %d\nINIT MMInit\nNEXT MMNext\nINVARIANT EmitHist\nCHECK_DEADLOCK FALSE\n" % (8 if quick else 10),
                "ZddGen", "mach_" + prop, workers=1, timeout=3000, simulate=(8 if quick else 150), depth=(9 if quick else 11), tlc_seed=vlib.seed())
    if r.error:
        raise vlib.ToolError("GEN machine: " + r.error)
    mc = extract_cases(r.stdout)
    if len(mc) < 100:
        raise vlib.ToolError("machine GEN produced only %d behaviours" % len(mc))
    v.add_tlc(r, "GEN register machine (simulate)")
    mpath, rpath2 = os.path.join(w, "mach.ndjson"), os.path.join(w, "report2.json")
    write_ndjson(mpath, mc)
    run_harness("vh", ["zdd-machine", mpath, rpath2], timeout=3000)
    rep2 = load_report(rpath2)
    v.add_report(rep2)
    v.notes.append("%d register-machine behaviours replayed on one arena each" % rep2["total"])
    return v.finish()
