"""Raft family.  C35: spec/raft/RaftSM.tla (state machine fold: batching independence, snapshot equivalence) and RaftLog.tla (storage
contract) model-checked; their cases replayed through the RaftStorage calls of the real MemStore (and RocksStore with VERIF_RAFT_PERSISTENT=1
or in the thorough tier), plus openraft's own storage conformance suite."""
import os
import vlib
from vlib import Verdict, run_tlc, extract_cases, write_ndjson, run_harness, load_report, workdir

SPEC = os.path.join(vlib.SPEC, "raft")


def tlc(module, cfgtext, wname, **kw):
    cfg = "_%s.cfg" % wname
    with open(os.path.join(SPEC, cfg), "w") as f:
        f.write(cfgtext)
    try:
        return run_tlc(SPEC, module, cfg, wname, **kw)
    finally:
        os.remove(os.path.join(SPEC, cfg))


def features():
    # one build of vhraft for the whole family: always with RocksStore (RocksDB is built from source once, ~8 min cold)
    return "persistent"


def run_c35(prop):
    quick = vlib.tier() != "thorough"
    v = Verdict(prop, "model_checking")
    v.rule = ("case = command log of 8 (thorough 12) commands over all 16 command kinds with a batch cut and a snapshot index, or a history of 5 (thorough 6) "
              "storage calls (append / conflict deletion / purge / vote / term change); non-trivial = non-empty final state resp. a history with purge or conflict deletion; distinct by hash")
    v.assumptions = ["stores: MemStore and RocksStore (vhraft is built with the persistent feature; RocksDB builds from source in ~8 min cold)",
                     "openraft::testing::Suite is run as the library's own statement of its storage contract"]
    w = workdir("raft35")
    feat = features()
    # --- design level
    r = tlc("RaftSM", "CONSTANTS MaxLen = %d\nINIT Init\nNEXT MCNext\nINVARIANT Batching\nINVARIANT SnapEquiv\nCHECK_DEADLOCK FALSE\n" % (3 if quick else 4), "sm_mc", workers=8, timeout=3000)
    if r.error:
        raise vlib.ToolError("RaftSM MC: " + r.error)
    v.add_tlc(r, "RaftSM: Batching and SnapEquiv for every log")
    r = tlc("RaftLog", "CONSTANTS MaxOps = 5\nMaxIdx = 4\nPurgeForgetsLast = TRUE\nINIT Init\nNEXT Next\nINVARIANT LastNeverLostByPurge\nCHECK_DEADLOCK FALSE\n", "log_dev", workers=4, timeout=600)
    if "LastNeverLostByPurge is violated" not in r.stdout:
        raise vlib.ToolError("RaftLog: the faithful switch PurgeForgetsLast should violate LastNeverLostByPurge")
    v.notes.append("RaftLog with PurgeForgetsLast = TRUE violates LastNeverLostByPurge at design level (the defect fixed in the stores)")
    # --- GEN: state machine
    L = 8 if quick else 12
    r = tlc("RaftSM", "CONSTANTS MaxLen = %d\nINIT Init\nNEXT Next\nINVARIANT Case\nCHECK_DEADLOCK FALSE\n" % L, "sm_gen", workers=1, timeout=1800,
            simulate=(12 if quick else 150), depth=L + 1, tlc_seed=vlib.seed())
    if r.error:
        raise vlib.ToolError("RaftSM GEN: " + r.error)
    cases = extract_cases(r.stdout)
    cases = cases[:: max(1, len(cases) // (2500 if quick else 12000))]
    v.add_tlc(r, "RaftSM GEN: %d cases" % len(cases))
    kinds = {c["k"] for cs in cases for c in cs["log"]}
    if len(kinds) < 16:
        raise vlib.ToolError("RaftSM GEN covered only %d of 16 command kinds" % len(kinds))
    cp, rp = os.path.join(w, "sm_cases.ndjson"), os.path.join(w, "sm_report.json")
    write_ndjson(cp, cases)
    run_harness("vhraft", ["sm-replay", cp, rp], features=feat, timeout=3000, env_extra={"VERIF_ROCKS_STRIDE": "10" if quick else "6"})
    v.add_report(load_report(rp))
    # --- GEN: storage contract, exhaustive histories
    mo = 5 if quick else 6
    r = tlc("RaftLog", "CONSTANTS MaxOps = %d\nMaxIdx = 4\nPurgeForgetsLast = FALSE\nINIT Init\nNEXT Next\nINVARIANT LastNeverLostByPurge\nINVARIANT Case\nCHECK_DEADLOCK FALSE\n" % mo, "log_gen", workers=4, timeout=3000)
    if r.error:
        raise vlib.ToolError("RaftLog: " + r.error)
    lc = extract_cases(r.stdout)
    v.add_tlc(r, "RaftLog: contract holds on the reference; %d histories" % len(lc))
    cp, rp = os.path.join(w, "log_cases.ndjson"), os.path.join(w, "log_report.json")
    write_ndjson(cp, lc)
    run_harness("vhraft", ["log-replay", cp, rp, 4], features=feat, timeout=3000, env_extra={"VERIF_ROCKS_STRIDE": "10" if quick else "6"})
    v.add_report(load_report(rp))
    # --- the library's own suite
    rp = os.path.join(w, "suite_report.json")
    run_harness("vhraft", ["suite", rp], features=feat, timeout=3000)
    rep = load_report(rp)
    v.add_report(rep)
    v.notes.append("stores exercised: MemStore%s; counters %s" % (" + RocksStore" if feat else "", rep["counters"]))
    return v.finish()


def run_c36(prop):
    quick = vlib.tier() != "thorough"
    v = Verdict(prop, "model_checking")
    v.rule = ("case = history of 7 (thorough 8) storage calls (append, vote, apply, snapshot build, purge, snapshot install, conflict deletion) on 3 log positions, "
              "each call cut by a crash before any of its RocksDB writes, with reopen at any point; non-trivial = the history contains a reopen; distinct by hash")
    v.assumptions = ["a crash leaves exactly the RocksDB writes issued before it (WAL, synchronous puts): realised by panicking before the n-th write (hook H9) and dropping the store",
                     "reopen = RocksStore::open_with_shared_state, as bootstrap_persistent does", "needs the `persistent` feature (RocksDB built from source, ~8 min cold)"]
    w = workdir("raft36")
    mo = 6 if quick else 7
    base = 'CONSTANTS MaxIdx = 3\nMaxOps = %d\nRecoverFrom = "%s"\nINIT Init\nNEXT Next\n'
    r = tlc("RocksRecovery", base % (mo, "snapshot") + "INVARIANT Recovered\nCHECK_DEADLOCK FALSE\n", "rr_ideal", workers=8, timeout=3000)
    if r.error or r.violated:
        raise vlib.ToolError("RocksRecovery ideal design: %s %s" % (r.error, r.violated))
    v.add_tlc(r, "RocksRecovery: persisting the snapshot before the applied position and recovering from it satisfies Recovered")
    r0 = tlc("RocksRecovery", base % (mo, "log") + "INVARIANT Recovered\nCHECK_DEADLOCK FALSE\n", "rr_faith", workers=4, timeout=3000)
    if r0.violated != "Recovered":
        raise vlib.ToolError("RocksRecovery faithful model expected to violate Recovered: %s" % (r0.error or r0.violated))
    v.notes.append("faithful model (recovery replays only the remaining log) violates Recovered at design level")
    L = 7 if quick else 8
    r = tlc("RocksRecovery", base % (L, "log") + "INVARIANT Case\nCHECK_DEADLOCK FALSE\n", "rr_gen", workers=1, timeout=3000,
            simulate=(120 if quick else 600), depth=L + 1, tlc_seed=vlib.seed())
    if r.error:
        raise vlib.ToolError("RocksRecovery GEN: " + r.error)
    cases = extract_cases(r.stdout)
    cases = cases[:: max(1, len(cases) // (250 if quick else 4000))]
    v.add_tlc(r, "RocksRecovery GEN (random walks): %d histories" % len(cases))
    # transition coverage of the (disk, memory) state graph: one history per transition
    rc = tlc("RocksRecovery", 'CONSTANTS MaxIdx = 3\nMaxOps = 12\nRecoverFrom = "log"\nINIT Init\nNEXT CovNext\nVIEW CovView\nCHECK_DEADLOCK FALSE\n', "rr_cov", workers=1, timeout=3000)
    if rc.error or rc.violated:
        raise vlib.ToolError("RocksRecovery coverage: %s %s" % (rc.error, rc.violated))
    cov = extract_cases(rc.stdout)
    cov = [c for c in cov if c["hist"][-1]["op"] == "reopen"]     # only histories that end in a recovery check anything new
    if quick:
        cov = cov[vlib.seed() % 3:: max(1, len(cov) // 600)]
    else:
        cov = cov[:: max(1, len(cov) // 5000)]
    v.add_tlc(rc, "RocksRecovery transition coverage: %d histories ending in a reopen" % len(cov))
    cases = cov + cases
    ops = {h["op"] for c in cases for h in c["hist"]}
    if not {"append", "vote", "apply", "build", "purge", "install", "conflict", "reopen"} <= ops:
        raise vlib.ToolError("RocksRecovery GEN missed operations: %s" % sorted(ops))
    cp, rp = os.path.join(w, "cases.ndjson"), os.path.join(w, "report.json")
    write_ndjson(cp, cases)
    run_harness("vhraft", ["rocks-replay", cp, rp], features="persistent", timeout=3000)
    rep = load_report(rp)
    v.add_report(rep)
    return v.finish()


def run_c38(prop):
    quick = vlib.tier() != "thorough"
    v = Verdict(prop, "model_checking")
    v.rule = ("case = history of 40 (thorough 60) coordinator operations (register, deregister, heartbeat, ageing, deploy, group removal, connector create/update/delete, "
              "health sweep with failover) on a single-node Raft coordinator, each followed by sync_from_raft; non-trivial = contains a deploy; distinct by hash")
    v.assumptions = ["single-node Raft (real openraft, MemStore, state machine); the follower view is the replicated state itself, checked by C35/C37",
                     "the health loop's body is mirrored call by call (it is a closure inside the CLI's main.rs)",
                     "drain / manual migrate / rebalance are not driven (their HTTP choreography needs a fuller mock worker)"]
    w = workdir("raft38")
    base = "CONSTANTS Faithful = %s\nMaxLen = %d\nINIT Init\nNEXT Next\n"
    r = tlc("CoordSync", base % ("FALSE", 6 if quick else 8) + "INVARIANT InSync\nCHECK_DEADLOCK FALSE\n", "cs_ideal", workers=8, timeout=3000)
    if r.error or r.violated:
        raise vlib.ToolError("CoordSync ideal: %s %s" % (r.error, r.violated))
    v.add_tlc(r, "CoordSync: replicating every change keeps sync_from_raft a no-op (InSync)")
    r0 = tlc("CoordSync", base % ("TRUE", 6) + "INVARIANT InSync\nCHECK_DEADLOCK FALSE\n", "cs_faith", workers=4, timeout=3000)
    if r0.violated != "InSync":
        raise vlib.ToolError("CoordSync faithful expected to violate InSync: %s" % (r0.error or r0.violated))
    v.notes.append("faithful model (what the handlers replicate today) violates InSync at design level")
    L = 40 if quick else 60
    r = tlc("CoordSync", base % ("TRUE", L) + "INVARIANT Case\nCHECK_DEADLOCK FALSE\n", "cs_gen", workers=1, timeout=3000,
            simulate=(14 if quick else 60), depth=L + 1, tlc_seed=vlib.seed())
    if r.error:
        raise vlib.ToolError("CoordSync GEN: " + r.error)
    allc = extract_cases(r.stdout)
    seen, cases = set(), []
    for c in allc:
        key = str([h["a"] for h in c["hist"][:-1]])
        if key not in seen:
            seen.add(key)
            cases.append(c)
    ops = {h["a"]["op"] for c in cases for h in c["hist"]}
    if not {"register", "deregister", "heartbeat", "age", "deploy", "delete_group", "connector", "sweep"} <= ops:
        raise vlib.ToolError("CoordSync GEN missed operations: %s" % sorted(ops))
    v.add_tlc(r, "CoordSync GEN: %d histories of %d operations" % (len(cases), L))
    cp, rp = os.path.join(w, "cases.ndjson"), os.path.join(w, "report.json")
    write_ndjson(cp, cases)
    run_harness("vhraft", ["sync-replay", cp, rp], features="persistent", timeout=3000)
    rep = load_report(rp)
    v.add_report(rep)
    v.notes.append("counters: %s" % rep["counters"])
    return v.finish()


def run_c37(prop):
    quick = vlib.tier() != "thorough"
    v = Verdict(prop, "exploration")
    v.rule = ("case = one fault scenario on a real 3-node cluster (30 (thorough 60) steps of client writes, inbound cut / drop / delay per node, heal, and - on persistent storage - "
              "crash and restart of a node), recorded and validated by TLC; non-trivial = at least one acknowledged write and one fault or crash; distinct by seed")
    v.assumptions = ["faults act on connections TO a node (every node reaches a peer through the one address in the membership): inbound cut / drop / delay, not per-direction loss",
                     "the per-index state digest comes from hook H10, taken inside the store before the new state is published",
                     "in-memory nodes never restart (a restarted in-memory node would be a new, empty node)"]
    w = workdir("raft37")
    r = tlc("ReplModel", open(os.path.join(SPEC, "ReplModel.cfg")).read().replace("MaxCmds = 2", "MaxCmds = %d" % (2 if quick else 3)), "rm_mc", workers=8, timeout=3000)
    if r.error or r.violated:
        raise vlib.ToolError("ReplModel: %s %s" % (r.error, r.violated))
    v.add_tlc(r, "ReplModel: Agreement, Durable, OneLeaderPerTerm for 3 nodes, 3 terms")
    r0 = tlc("ReplModel", open(os.path.join(SPEC, "ReplModel.cfg")).read().replace("VoteCheck = TRUE", "VoteCheck = FALSE"), "rm_bad", workers=8, timeout=3000)
    if not r0.violated:
        raise vlib.ToolError("ReplModel without the vote check should violate an invariant")
    v.notes.append("ReplModel sanity: without the up-to-date check in elections %s is violated" % r0.violated)
    rp, tp = os.path.join(w, "report.json"), os.path.join(w, "trace.ndjson")
    run_harness("vhraft", ["cluster-record", rp, tp, 4 if quick else 24, 30 if quick else 60], features="persistent", timeout=6000)
    rep = load_report(rp)
    v.add_report(rep)
    ok = vlib.tv_blocks(v, prop, SPEC, "ReplLog", [], ["RAgree", "RMono", "RDurable"], tp, "cl", conform=None)
    recs = vlib.read_ndjson(tp)
    v.notes.append("%d scenarios, %d trace records (%d applies, %d acks, %d faults, %d crashes) accepted blocks: %d; counters %s" % (
        rep["total"], len(recs), sum(1 for x in recs if x["ev"] == "apply"), sum(1 for x in recs if x["ev"] == "ack"),
        sum(1 for x in recs if x["ev"] == "fault"), sum(1 for x in recs if x["ev"] == "crash"), ok, rep["counters"]))
    if sum(1 for x in recs if x["ev"] == "ack") == 0:
        raise vlib.ToolError("no acknowledged write in any scenario: vacuous")
    return v.finish()


def run(prop, replay=None):
    if prop == "C37":
        return run_c37(prop)
    if prop == "C38":
        return run_c38(prop)
    if prop == "C35":
        return run_c35(prop)
    if prop == "C36":
        return run_c36(prop)
    raise vlib.ToolError("no check for " + prop)
