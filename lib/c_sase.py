"""C01, C02, C03, C05 — spec/sase/Sase.tla.
 MC   : TLC checks Soundness / Exact / Bounded / KleeneExact of the transcribed matcher against the declarative
        reference, exhaustively within the bound (ideal switches), and shows the faithful switch violates Bounded.
 GEN  : TLC-generated behaviours (exhaustive tiny + simulate) replayed through SaseEngine and VPL->Engine.
 TV   : every replayed case and a seeded random driver are recorded and validated by TLC (SaseTrace): conformance to
        the model and the property-level invariants on the RECORDED outputs."""
import os, json
import vlib
from vlib import Verdict, run_tlc, need_ok, extract_cases, write_ndjson, read_ndjson, validate_trace, run_harness, load_report, workdir, log

SPEC = os.path.join(vlib.SPEC, "sase")

INV_OF = {"C01": ["RSound"], "C02": ["RExact"], "C03": ["RKleene"], "C05": ["RBoundedNoKl", "RBoundedKlNonTrailing"]}
MC_OF = {"C01": ["seq", "kl"], "C02": ["seq"], "C03": ["kl"], "C05": ["cap", "kl"]}


def cfg_text(programs, maxlen, invs, vals="{0,1}", capdev="FALSE", init="Init", nxt="Next", keys='{"k1","k2"}'):
    return "\n".join(["CONSTANTS", '  Types = {"A","B","C","N"}', "  Keys = " + keys, "  Vals = " + vals,
                      "  MaxLen = %d" % maxlen, "  FlushDeviation = TRUE", "  CapDeviation = " + capdev,
                      "  Programs <- " + programs, "INIT " + init, "NEXT " + nxt] +
                     ["INVARIANT " + i for i in invs] + ["CHECK_DEADLOCK FALSE", ""])


def split_blocks(recs):
    blocks, cur = [], None
    for r in recs:
        if r["ev"] == "reset":
            cur = [r]
            blocks.append(cur)
        else:
            cur.append(r)
    return blocks


def tv(v, prop, trace_path, wname, invs):
    """Validate a recorded trace.  Returns list of (block, invariant) failures; conformance failures are drift."""
    recs = read_ndjson(trace_path)
    blocks = split_blocks(recs)
    remaining = blocks
    round_ = 0
    total_ok = 0
    while remaining and round_ < 40:
        round_ += 1
        flat = [r for b in remaining for r in b]
        tp = os.path.join(vlib.WORK, "%s_%s_%d.ndjson" % (wname, prop, round_))
        write_ndjson(tp, flat)
        cfgp = os.path.join(SPEC, "_tv_%s.cfg" % prop)
        with open(cfgp, "w") as f:
            f.write("\n".join(["CONSTANTS", '  Types = {"A","B","C","N"}', '  Keys = {"k1","k2","k3"}', "  Vals = {0,1,2}",
                               "  MaxLen = 100000", "  FlushDeviation = TRUE", "  CapDeviation = TRUE", "  Programs = {}",
                               "INIT TInit", "NEXT TNext"] + ["INVARIANT " + i for i in invs + ["Conform"]] +
                              ["POSTCONDITION AcceptedMsg", "CHECK_DEADLOCK FALSE", ""]))
        r = validate_trace(SPEC, "SaseTrace", os.path.basename(cfgp), tp, "tv_" + prop)
        v.add_tlc(r)
        if r.ok:
            total_ok += len(remaining)
            break
        if r.violated is None:
            raise vlib.ToolError("trace validation error: %s\n%s" % (r.error, r.stdout[-3000:]))
        # which block failed: the counterexample's last state has l = index of the next record
        import re
        ls = re.findall(r"/\\ l = (\d+)", r.stdout)
        if not ls:
            raise vlib.ToolError("cannot locate failing record\n" + r.stdout[-2000:])
        lfail = int(ls[-1]) - 1          # record consumed last (1-based)
        # map to block
        pos, bi = 0, None
        for i, b in enumerate(remaining):
            if pos < lfail <= pos + len(b):
                bi = i
                break
            pos += len(b)
        if bi is None:
            raise vlib.ToolError("failing record %d outside trace" % lfail)
        bad = remaining[bi]
        total_ok += bi
        if r.violated == "Conform":
            # model drift candidate: re-validate this block alone in monitor mode (property invariants only)
            tp1 = os.path.join(vlib.WORK, "%s_%s_blk.ndjson" % (wname, prop))
            write_ndjson(tp1, bad)
            with open(cfgp, "w") as f:
                f.write("\n".join(["CONSTANTS", '  Types = {"A","B","C","N"}', '  Keys = {"k1","k2","k3"}', "  Vals = {0,1,2}",
                                   "  MaxLen = 100000", "  FlushDeviation = TRUE", "  CapDeviation = TRUE", "  Programs = {}",
                                   "INIT TInit", "NEXT TNext"] + ["INVARIANT " + i for i in invs] +
                                  ["POSTCONDITION AcceptedMsg", "CHECK_DEADLOCK FALSE", ""]))
            r1 = validate_trace(SPEC, "SaseTrace", os.path.basename(cfgp), tp1, "tv1_" + prop)
            if r1.ok:
                v.drift.append({"prop": prop, "what": "real matcher differs from the transcribed model; property invariants hold on the recorded outputs",
                                "case": {"prog": bad[0]["prog"], "stream": [x.get("e") for x in bad[1:]][:12]}})
            elif r1.violated:
                v.violations.append({"what": "invariant %s false on recorded outputs" % r1.violated, "block": bad[:40]})
            else:
                raise vlib.ToolError("monitor run error: %s\n%s" % (r1.error, r1.stdout[-2000:]))
        else:
            v.violations.append({"what": "invariant %s false on recorded outputs of the real matcher" % r.violated, "block": bad[:40]})
        remaining = remaining[bi + 1:]
        if len(v.violations) >= 5:
            break
    try:
        os.remove(os.path.join(SPEC, "_tv_%s.cfg" % prop))
    except OSError:
        pass
    return total_ok


def run(prop, replay=None):
    quick = vlib.tier() != "thorough"
    sd = vlib.seed()
    v = Verdict(prop, "model_checking")
    v.rule = ("case = (program from the spec grammar, event stream); generated by TLC from SaseGen (exhaustive tiny bound and -simulate) "
              "or by the seeded random driver; non-trivial = the real matcher emitted a match or dropped/evicted a run; distinct by hash of (program, stream)")
    v.assumptions = ["event types/filters limited to the spec grammar (none, x>=1, x==prev.x, x>self.x); default selection strategy",
                     "processing-time deadlines not exercised (no `within`)"]
    w = workdir("sase_" + prop)
    # ---------------- MC ----------------
    L = 3 if quick else 4
    for which in MC_OF[prop]:
        progs = {"seq": "SeqPrograms", "kl": "KlPrograms", "cap": "CapPrograms"}[which]
        invs = {"seq": ["Soundness", "Exact", "Bounded"], "kl": ["Soundness", "Bounded", "KleeneExact"], "cap": ["Soundness", "Bounded"]}[which]
        cfg = "_mc_%s_%s.cfg" % (prop, which)
        with open(os.path.join(SPEC, cfg), "w") as f:
            f.write(cfg_text(progs, L if which != "kl" else L + 1, invs))
        r = need_ok(run_tlc(SPEC, "SaseMC", cfg, "mc_%s_%s" % (prop, which), workers=8 if quick else 14, timeout=3000), "MC %s" % which)
        v.add_tlc(r, "MC %s L=%d" % (which, L))
        v.checker_cmds.append("tlc -config %s SaseMC.tla" % cfg)
        os.remove(os.path.join(SPEC, cfg))
    if prop == "C05":
        # non-vacuity: the faithful switch (trailing `all` ignores the Kleene cap) must violate Bounded at design level
        cfg = "_mc_%s_dev.cfg" % prop
        with open(os.path.join(SPEC, cfg), "w") as f:
            f.write(cfg_text("KlPrograms", 4, ["Bounded"], capdev="TRUE"))
        r = run_tlc(SPEC, "SaseMC", cfg, "mc_dev", workers=8, timeout=600)
        os.remove(os.path.join(SPEC, cfg))
        if r.violated != "Bounded":
            raise vlib.ToolError("deviation run did not violate Bounded: %s %s" % (r.violated, r.error))
        v.notes.append("faithful switch CapDeviation violates Bounded at design level (expected)")
    # ---------------- GEN ----------------
    progsel = {"C01": "AllPrograms", "C02": "SeqPrograms", "C03": "KlPrograms", "C05": "AllPrograms"}[prop]
    cfg = "_gen_%s.cfg" % prop
    with open(os.path.join(SPEC, cfg), "w") as f:
        f.write(cfg_text(progsel, 8 if quick else 10, ["Emit"], vals="{0,1,2}", capdev="TRUE", init="GInit", nxt="GNext"))
    r = run_tlc(SPEC, "SaseGen", cfg, "gen_" + prop, workers=1, timeout=1200, simulate=(150 if quick else 2500), depth=(9 if quick else 11), tlc_seed=sd)
    os.remove(os.path.join(SPEC, cfg))
    if r.error:
        raise vlib.ToolError("GEN: " + r.error + r.stdout[-1500:])
    cases = extract_cases(r.stdout)
    if len(cases) < 50:
        raise vlib.ToolError("GEN produced only %d cases\n%s" % (len(cases), r.stdout[-1500:]))
    v.add_tlc(r, "GEN simulate")
    cpath = os.path.join(w, "cases.ndjson")
    write_ndjson(cpath, cases)
    rep_path, tr_path = os.path.join(w, "report.json"), os.path.join(w, "trace.ndjson")
    run_harness("vh", ["sase-replay", cpath, rep_path, tr_path])
    rep = load_report(rep_path)
    v.add_report(rep)
    # all recorded replays through TLC: conformance + property invariants on the recorded outputs
    invs = INV_OF[prop]
    okb = tv(v, prop, tr_path, "gentr", invs)
    v.notes.append("GEN: %d cases replayed (API) of which %d through VPL; %d trace blocks accepted by TLC" % (
        rep["total"], rep["counters"].get("vpl_cases", 0), okb))
    # ---------------- TV: random driver beyond TLC's bounds ----------------
    rep2, tr2 = os.path.join(w, "report2.json"), os.path.join(w, "trace2.ndjson")
    run_harness("vh", ["sase-record", rep2, tr2, 60 if quick else 1500, 30 if quick else 60])
    v.add_report(load_report(rep2))
    okb2 = tv(v, prop, tr2, "rndtr", invs)
    v.notes.append("TV: %d random blocks accepted by TLC" % okb2)
    if prop == "C03":
        rep3, tr3 = os.path.join(w, "report3.json"), os.path.join(w, "trace3.ndjson")
        run_harness("vh", ["sase-kleene", rep3, tr3, 300 if quick else 6000, 7 if quick else 11])
        r3 = load_report(rep3)
        v.add_report(r3)
        okb3 = tv(v, prop, tr3, "kltr", invs)
        v.notes.append("C03 driver: %d A B^n C blocks accepted by TLC (%d with several combinations, %d hitting the enumeration cap)" % (
            okb3, r3["counters"].get("multi_combo_cases", 0), r3["counters"].get("enum_cap_hit", 0)))
    # known finding attribution (C05/C03): trailing `all` ignores the Kleene cap -> RBounded's Kleene clause is
    # checked only for non-trailing programs; count the affected blocks so the finding is reported when it is exercised
    if prop in ("C05", "C03"):
        n = 0
        for path in (tr_path, tr2) + ((tr3,) if prop == 'C03' else ()):
            for b in split_blocks(read_ndjson(path)):
                p = b[0]["prog"]
                if p["steps"][-1]["all"] and any(x.get("maxkl", 0) > p["maxK"] for x in b[1:]):
                    n += 1
        if n:
            v.add_known("C05-trailing-all-ignores-kleene-cap", "pattern ending in `all`: more than max_kleene_events events kept", n)
    return v.finish()
