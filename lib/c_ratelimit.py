"""C30 — spec/ratelimit/RateLimit.tla: integer token bucket with eviction; Bound (admitted <= burst + rate * T per tracking epoch).
MC over all request/tick sequences in the bound for every accepted configuration (incl. rate 0 / burst 0).  GEN/TV: histories
replayed into the real RateLimiter on a virtual clock (hook H8); recorded verdicts validated by TLC (RateLimitTrace.tla)."""
import os
import vlib
from vlib import Verdict, run_tlc, need_ok, extract_cases, write_ndjson, run_harness, load_report, workdir, tv_blocks

SPEC = os.path.join(vlib.SPEC, "ratelimit")


def tlc_cfg(name, text, module, wname, **kw):
    path = os.path.join(SPEC, name)
    with open(path, "w") as f:
        f.write(text)
    try:
        return run_tlc(SPEC, module, name, wname, **kw)
    finally:
        os.remove(path)


def run(prop, replay=None):
    quick = vlib.tier() != "thorough"
    v = Verdict(prop, "model_checking")
    v.rule = ("case = (rate 0..2 (random: 0..4), burst 0..2 (0..5), sequence of clock advances and requests of 2 clients, tracking capacity 1 or 2); "
              "non-trivial = at least one request rejected; distinct by hash")
    v.assumptions = ["virtual clock (hook H8) replaces Instant::now() inside the token bucket", "request times in whole milliseconds"]
    w = workdir("rl")
    base = 'CONSTANTS Clients = {"a","b"} Rates = %s Bursts = %s Cap = %d Steps = {250, 500, 1000} MaxReq = %d MaxTime = %d\nINIT Init\nNEXT Next\n'
    r = need_ok(tlc_cfg("_mc.cfg", base % ("{0,2}", "{0,1,2}", 1, 4 if quick else 5, 1500 if quick else 2000) + "INVARIANT Bound\nCHECK_DEADLOCK FALSE\n", "RateLimitMC", "mc", workers=8 if quick else 14, timeout=3000), "MC Bound")
    v.add_tlc(r, "MC Bound over all sequences")
    v.checker_cmds.append("tlc RateLimitMC.tla")
    cases = []
    for cap in (1, 2):
        r = tlc_cfg("_gen.cfg", base % ("{0,1,2}", "{0,1,2}", cap, 7 if quick else 10, 6000) + "INVARIANT Emit\nCHECK_DEADLOCK FALSE\n", "RateLimitMC", "gen%d" % cap, workers=1, timeout=1800,
                    simulate=(600 if quick else 6000), depth=(14 if quick else 20), tlc_seed=vlib.seed())
        if r.error:
            raise vlib.ToolError("GEN: " + r.error)
        cs = extract_cases(r.stdout)
        v.add_tlc(r, "GEN cap=%d: %d histories" % (cap, len(cs)))
        cases += cs[:(600 if quick else 100000)]
    if len(cases) < 100:
        raise vlib.ToolError("GEN produced only %d cases" % len(cases))
    cpath, rpath, tpath = os.path.join(w, "cases.ndjson"), os.path.join(w, "report.json"), os.path.join(w, "trace.ndjson")
    write_ndjson(cpath, cases)
    run_harness("vh", ["rl-replay", cpath, rpath, tpath])
    rep = load_report(rpath)
    v.add_report(rep)
    const = ["CONSTANTS", '  Clients = {"a","b"}', "  Rates = {}", "  Bursts = {}", "  Cap = 1", "  Steps = {}", "  MaxReq = 1000000", "  MaxTime = 1000000000"]
    # blocks were generated with cap 1 and cap 2: validate them with the matching constant
    import json
    recs = vlib.read_ndjson(tpath)
    blocks = vlib.split_blocks(recs)
    half = len(blocks)
    n1 = sum(1 for c in cases if c["cap"] == 1)
    for cap, blks in ((1, blocks[:n1]), (2, blocks[n1:])):
        tp = os.path.join(w, "trace_cap%d.ndjson" % cap)
        write_ndjson(tp, [r for b in blks for r in b])
        cc = [x.replace("Cap = 1", "Cap = %d" % cap) for x in const]
        ok = tv_blocks(v, prop, SPEC, "RateLimitTrace", cc, ["RBound", "RFinite"], tp, "gen%d" % cap)
        v.notes.append("cap=%d: %d trace blocks accepted by TLC" % (cap, ok))
    rep2, tr2 = os.path.join(w, "report2.json"), os.path.join(w, "trace2.ndjson")
    run_harness("vh", ["rl-record", rep2, tr2, 400 if quick else 4000, 30 if quick else 60])
    v.add_report(load_report(rep2))
    cc = [x.replace("Cap = 1", "Cap = 2") for x in const]
    ok2 = tv_blocks(v, prop, SPEC, "RateLimitTrace", cc, ["RBound", "RFinite"], tr2, "rnd")
    v.notes.append("%d random blocks (idle periods followed by bursts, rates 0..4, bursts 0..5) accepted by TLC" % ok2)
    return v.finish()
